"""Build pipeline: /repo working tree -> instrumented library -> xrlsim simulator binary.

Everything is rebuilt from /repo's current working tree on every call (DESIGN §2.1).
Only the simulator's own objects (which depend on /verif/sim and on the generated
tables derived from the public headers) are cached, keyed by content hash.
"""
import concurrent.futures as cf
import hashlib
import json
import os
import re
import shutil
import subprocess
import sys
import time

VERIF = os.path.dirname(os.path.dirname(os.path.dirname(os.path.abspath(__file__))))
REPO = os.environ.get("XV_REPO", "/repo")
SIM = os.path.join(VERIF, "sim")

CLANG = "clang-14"
CLANGXX = "clang++-14" if shutil.which("clang++-14") else "clang++"

SAN = ["-fsanitize=address,bounds,null,alignment,object-size,pointer-overflow,vla-bound",
       "-fno-sanitize-recover=all"]
COV = ["-fsanitize-coverage=trace-pc-guard,pc-table,trace-loads,trace-stores"]
BASE = ["-O1", "-g", "-fno-omit-frame-pointer", "-fno-optimize-sibling-calls",
        "-DHAVE_CONFIG_H", "-D_GNU_SOURCE", "-DXRL_VERIF_SIM"]

# Undefined references of the *library* that are diverted to the simulator (xs_*).
SEAMS = """malloc calloc realloc free strdup strndup vasprintf asprintf reallocarray aligned_alloc memalign valloc posix_memalign getline getdelim
fopen fdopen freopen setlocale newlocale duplocale freelocale uselocale strtod strtof strtold atof __isoc99_sscanf __isoc99_fscanf sscanf fscanf
strtol strtoul atoi
memcpy memmove memset strcmp strncmp strlen strcpy strncpy strcat memcmp
snprintf vsnprintf sprintf vsprintf fgets
__asan_memcpy __asan_memmove __asan_memset qsort lfind bsearch
strtok rand srand localeconv gmtime localtime ctime asctime getenv setenv putenv
time clock gettimeofday clock_gettime timespec_get getpid getppid pthread_self arc4random arc4random_buf arc4random_uniform getrandom getentropy
hcreate hdestroy hsearch drand48 lrand48 mrand48 srand48 random srandom lgamma lgammaf gamma ecvt fcvt
pthread_mutex_lock pthread_mutex_unlock pthread_mutex_trylock pthread_mutex_init pthread_mutex_destroy
pthread_once call_once pthread_key_create pthread_key_delete pthread_setspecific pthread_getspecific tss_create tss_delete tss_set tss_get mtx_init mtx_destroy mtx_lock mtx_trylock mtx_unlock
pthread_spin_init pthread_spin_destroy pthread_spin_lock pthread_spin_trylock pthread_spin_unlock
pthread_rwlock_init pthread_rwlock_destroy pthread_rwlock_rdlock pthread_rwlock_tryrdlock pthread_rwlock_wrlock pthread_rwlock_trywrlock pthread_rwlock_unlock
pthread_cond_init pthread_cond_destroy pthread_cond_wait pthread_cond_timedwait pthread_cond_signal pthread_cond_broadcast
chdir fesetround""".split()

# other names of the same libc entry points (LFS aliases, C23 scanf family, fortified variants do not occur: the build does not define _FORTIFY_SOURCE)
SEAM_ALIASES = {"fopen64": "fopen", "freopen64": "freopen", "__isoc23_sscanf": "sscanf", "__isoc23_fscanf": "fscanf",
                "__isoc23_strtol": "strtol", "__isoc23_strtoul": "strtoul", "__getdelim": "getdelim"}

# externals that are deterministic, MT-safe and stateless: left real
ALLOW = set("""asin acos atan atan2 cos sin tan exp log log10 pow sqrt fabs floor ceil fmod cbrt hypot
exp2 log2 log1p expm1 sinh cosh tanh round trunc lround
fclose feof ferror fgetc getc ungetc fread fseek ftell rewind fflush clearerr
strerror strchr strrchr strstr strspn strcspn strpbrk strnlen
__ctype_b_loc __ctype_tolower_loc __ctype_toupper_loc tolower toupper isalpha isdigit
__errno_location stderr stdout stdin abs labs
fprintf fwrite fputs puts printf vfprintf putchar fputc
__stack_chk_fail _GLOBAL_OFFSET_TABLE_""".split())
SAN_PREFIXES = ("__asan_", "__ubsan_", "__sanitizer_", "__start___sancov", "__stop___sancov", "__sancov")

MT_UNSAFE = set("strtok rand srand localeconv gmtime localtime ctime asctime setenv putenv getenv hcreate hdestroy hsearch drand48 lrand48 mrand48 srand48 random srandom lgamma lgammaf gamma ecvt fcvt arc4random arc4random_buf arc4random_uniform".split())


def sh(cmd, **kw):
    r = subprocess.run(cmd, stdout=subprocess.PIPE, stderr=subprocess.STDOUT, text=True, **kw)
    if r.returncode != 0:
        raise BuildError("command failed (%d): %s\n%s" % (r.returncode, " ".join(cmd), r.stdout[-4000:]))
    return r.stdout


class BuildError(Exception):
    pass


def parse_meson_sources():
    """source lists from /repo/src/meson.build; fallback: glob minus generator files."""
    path = os.path.join(REPO, "src", "meson.build")
    lists = {}
    try:
        txt = open(path).read()
        for name in ("shared_sources", "libprdata_sources", "prdata_sources", "libxrl_sources"):
            m = re.search(r"^%s\s*=\s*(.*?)^\)" % name, txt, re.S | re.M)
            if not m:
                raise ValueError(name)
            lists[name] = re.findall(r"'([^']+\.c)'", m.group(1))
        shared = lists["shared_sources"]
        prdata = shared + lists["libprdata_sources"] + lists["prdata_sources"]
        lib = shared + lists["libxrl_sources"]
        for f in set(prdata + lib):
            if not os.path.exists(os.path.join(REPO, "src", f)):
                raise ValueError(f)
        return dedup(prdata), dedup(lib)
    except Exception:
        allc = sorted(f for f in os.listdir(os.path.join(REPO, "src")) if f.endswith(".c"))
        gen = {"pr_data.c", "xrayfiles.c", "xrayglob.c", "xrf_cross_sections_aux-private.c"}
        shared = ["atomicweight.c", "auger_trans.c", "coskron.c", "cross_sections.c", "crystal_diffraction.c",
                  "fi.c", "fii.c", "fluor_yield.c", "radrate.c", "scattering.c", "splint.c", "xraylib-aux.c",
                  "xraylib-error.c", "xrayvars.c"]
        return dedup(shared + sorted(gen)), [f for f in allc if f not in gen]


def dedup(xs):
    out = []
    for x in xs:
        if x not in out:
            out.append(x)
    return out


def write_config_h(bdir):
    ver = "0.0.0"
    try:
        m = re.search(r"project\('xraylib'.*?version:\s*'([^']+)'", open(os.path.join(REPO, "meson.build")).read(), re.S)
        if m:
            ver = m.group(1)
    except Exception:
        pass
    inc = os.path.join(bdir, "cfg")
    os.makedirs(inc, exist_ok=True)
    with open(os.path.join(inc, "config.h"), "w") as f:
        f.write("#pragma once\n#define HAVE_COMPLEX_H\n#define HAVE_STRDUP 1\n#define HAVE_STRNDUP 1\n"
                "#define PACKAGE_TARNAME \"xraylib\"\n#define PACKAGE_VERSION \"%s\"\n#define VERSION \"%s\"\n"
                "#define XRL_EXTERN __attribute__((visibility(\"default\"))) extern\n" % (ver, ver))
    return inc


def includes(cfginc):
    return ["-I" + cfginc, "-I" + REPO, "-I" + os.path.join(REPO, "src"), "-I" + os.path.join(REPO, "include")]


PROTO_RE = re.compile(r"XRL_EXTERN\s+([\w\s\*]+?)\s*\b(\w+)\s*\(([^;{]*?)\)\s*;", re.S)


def strip_comments(txt):
    txt = re.sub(r"/\*.*?\*/", " ", txt, flags=re.S)
    return re.sub(r"//[^\n]*", " ", txt)


def gen_query_table(bdir):
    """Prototype lexer over the public headers and over every XRL_EXTERN prototype in src/ (exported entry points
    that no public header declares: *_2 variants for bindings, ElectronConfig_Biggs, the Kissel cascade helpers)
    -> query table + call switch (DESIGN §3)."""
    pub = strip_comments(open(os.path.join(REPO, "include", "xraylib.h")).read())
    texts = [(pub, True)]
    for f in sorted(os.listdir(os.path.join(REPO, "src"))):
        if f.endswith((".c", ".h")) and f not in ("pr_data.c", "xrayfiles.c", "xrayglob.c", "xrf_cross_sections_aux-private.c", "xrf_cross_sections_aux-private.h"):
            try:
                texts.append((strip_comments(open(os.path.join(REPO, "src", f)).read()), False))
            except Exception:
                pass
    queries = []
    seen = set()
    shapes = {}
    decls = []
    for txt, is_pub in texts:
        for m in PROTO_RE.finditer(txt):
            ret, name, params = m.group(1).strip(), m.group(2), m.group(3)
            ret = re.sub(r"\s+", " ", ret)
            if name in seen or ret not in ("double", "xrlComplex", "int", "void"):
                continue
            ps = [p.strip() for p in params.split(",") if p.strip()]
            if not ps or not re.match(r"xrl_error\s*\*\*\s*\w*$", ps[-1]):
                continue
            shape = ""
            classes = []
            ctypes_ = []
            ok = True
            for p in ps[:-1]:
                p = re.sub(r"\s+", " ", p)
                mm = re.match(r"int (\w+)$", p)
                if mm:
                    shape += "i"; classes.append(mm.group(1)); ctypes_.append("int"); continue
                mm = re.match(r"double (\w+)$", p)
                if mm:
                    shape += "d"; classes.append(mm.group(1)); ctypes_.append("double"); continue
                mm = re.match(r"const char (\w+)\s*\[\s*\]$", p) or re.match(r"const char \*\s*(\w+)$", p)
                if mm:
                    shape += "s"; classes.append(mm.group(1)); ctypes_.append("const char*"); continue
                mm = re.match(r"xrlComplex ?\* ?(\w+)$", p)
                if mm and ret == "void":
                    shape += "o"; classes.append(mm.group(1)); ctypes_.append("xrlComplex*"); continue
                ok = False
                break
            if not ok or shape.count("s") > 1 or shape.count("i") > 4 or shape.count("d") > 12 or len(shape) > 14:
                continue
            if ret == "void" and shape.count("o") != 1:
                continue
            rc = {"double": "D", "xrlComplex": "C", "int": "I", "void": "O"}[ret]
            shapes.setdefault((rc, shape), len(shapes))
            queries.append((name, rc, shape, classes))
            seen.add(name)
            if not is_pub:
                decls.append('extern "C" %s %s(%s);' % (ret, name, ", ".join(ctypes_ + ["xrl_error**"])))
    out = ["// generated from include/xraylib.h and the XRL_EXTERN prototypes in src/ by xvlib/build.py -- do not edit"]
    out.append("#ifdef XQ_DECLS")
    out += decls
    out.append("#endif")
    out.append("#ifdef XQ_TABLE")
    for name, rc, shape, classes in queries:
        out.append('  {"%s", (void*)%s, \'%s\', "%s", %d, {%s}},' % (
            name, name, rc, shape, shapes[(rc, shape)], ",".join('"%s"' % c for c in classes)))
    out.append("#endif")
    out.append("#ifdef XQ_CALL")
    ctype = {"i": "int", "d": "double", "s": "const char*", "o": "xrlComplex*"}
    for (rc, shape), idx in shapes.items():
        ii = dd = 0
        args = []
        for ch in shape:
            if ch == "i":
                args.append("a.i[%d]" % ii); ii += 1
            elif ch == "d":
                args.append("a.d[%d]" % dd); dd += 1
            elif ch == "o":
                args.append("&zo")
            else:
                args.append("a.s")
        sig = ",".join([ctype[c] for c in shape] + ["xrl_error**"])
        call = "((%s(*)(%s))fn)(%s)" % ({"D": "double", "C": "xrlComplex", "I": "int", "O": "void"}[rc], sig, ",".join(args + ["err"]))
        if rc == "D":
            out.append("  case %d: r.d0 = %s; break;" % (idx, call))
        elif rc == "I":
            out.append("  case %d: r.d0 = (double)%s; break;" % (idx, call))
        elif rc == "O":
            out.append("  case %d: { xrlComplex zo = {0, 0}; %s; r.d0 = zo.re; r.d1 = zo.im; } break;" % (idx, call))
        else:
            out.append("  case %d: { xrlComplex z = %s; r.d0 = z.re; r.d1 = z.im; } break;" % (idx, call))
    out.append("#endif")
    # names of catalogue entries, taken from the internal headers (the harness never asks the library)
    nist = []
    try:
        t = open(os.path.join(REPO, "src", "xraylib-nist-compounds-internal.h")).read()
        nist = re.findall(r'\{\s*"([^"]+)"\s*,\s*\d+\s*,\s*__CompoundDataNISTList_Elements', t)
    except Exception:
        pass
    rn = []
    try:
        t = open(os.path.join(REPO, "src", "xraylib-radionuclides-internal.h")).read()
        rn = re.findall(r'\{\s*"([^"]+)"\s*,', t)
    except Exception:
        pass
    out.append("#ifdef XQ_NAMES")
    out.append("static const char* const g_nist_names[] = {%s 0};" % "".join('"%s",' % n for n in nist))
    out.append("static const char* const g_rn_names[] = {%s 0};" % "".join('"%s",' % n for n in rn))
    out.append("#endif")
    path = os.path.join(bdir, "gen_queries.inc")
    new = "\n".join(out) + "\n"
    old = open(path).read() if os.path.exists(path) else None
    if old != new:
        open(path, "w").write(new)
    return len(queries), len(nist), len(rn)


def table_object(gen_c, tab_o, inc):
    """Compile a generated table file (ASan, no coverage hooks).  The file is regenerated from /repo's data by the
    repo's own prdata on every build; only the compilation of byte-identical output is skipped (content hash over
    the generated C file, the headers it includes and the flags)."""
    flags = [CLANG] + BASE + SAN + ["-w"] + inc
    hdrs = [os.path.join(REPO, "src", "xrayglob.h"), os.path.join(REPO, "src", "xrayvars.h")]
    hdrs += [os.path.join(REPO, "include", f) for f in sorted(os.listdir(os.path.join(REPO, "include"))) if f.endswith(".h")]
    hdrs.append(os.path.join(os.path.dirname(gen_c), "cfg", "config.h"))
    key = file_hash([gen_c] + [h for h in hdrs if os.path.exists(h)], " ".join(f for f in flags if not f.startswith("-I")))
    cachedir = os.path.join(VERIF, "build", "simcache")
    os.makedirs(cachedir, exist_ok=True)
    cached = os.path.join(cachedir, "table-" + key + ".o")
    if not os.path.exists(cached):
        tmp = cached + ".tmp%d" % os.getpid()
        sh(flags + ["-c", gen_c, "-o", tmp])
        os.replace(tmp, cached)
        # keep the cache small: drop table objects other than the newest four
        olds = sorted((f for f in os.listdir(cachedir) if f.startswith("table-") and f.endswith(".o")),
                      key=lambda f: os.path.getmtime(os.path.join(cachedir, f)))
        for f in olds[:-4]:
            try:
                os.unlink(os.path.join(cachedir, f))
            except OSError:
                pass
    else:
        os.utime(cached)
    shutil.copyfile(cached, tab_o)
    return tab_o


def build_kissel_table(bdir, odir, prdata, inc):
    """Optional data configuration "K" (DESIGN §9): kissel_pe.dat regenerated from data/kissel by a Python port of
    the upstream IDL converter, in a scratch project root whose data/ links to the shipped files."""
    from . import kissel as K
    kroot = os.path.join(bdir, "kroot")
    shutil.rmtree(kroot, ignore_errors=True)
    os.makedirs(os.path.join(kroot, "data"))
    os.makedirs(os.path.join(kroot, "cfg"))
    shutil.copyfile(os.path.join(bdir, "cfg", "config.h"), os.path.join(kroot, "cfg", "config.h"))
    for f in os.listdir(os.path.join(REPO, "data")):
        if f != "kissel_pe.dat":
            os.symlink(os.path.join(REPO, "data", f), os.path.join(kroot, "data", f))
    shipped = os.path.join(REPO, "data", "kissel_pe.dat")
    if os.path.exists(shipped) and os.path.getsize(shipped) > 0:
        os.symlink(shipped, os.path.join(kroot, "data", "kissel_pe.dat"))
        nel = -1
    else:
        nel = K.convert(os.path.join(REPO, "data", "kissel"), os.path.join(kroot, "data", "kissel_pe.dat"))
    gen_c = os.path.join(kroot, "xrayglob_inline.c")
    r = subprocess.run([prdata, kroot, gen_c], stdout=subprocess.PIPE, stderr=subprocess.STDOUT, text=True, timeout=600)
    if r.returncode != 0 or not os.path.exists(gen_c):
        raise BuildError("prdata failed on the Kissel configuration: rc=%d\n%s" % (r.returncode, r.stdout[-2000:]))
    tab_o = os.path.join(odir, "xrayglob_inline_K.o")
    table_object(gen_c, tab_o, inc)
    return tab_o, nel


def file_hash(paths, extra=""):
    h = hashlib.sha256(extra.encode())
    for p in sorted(paths):
        h.update(p.encode())
        h.update(open(p, "rb").read())
    return h.hexdigest()[:20]


def build(tag, verbose=False, jobs=16, kissel=False, o0=False):
    """Build everything for one check invocation into /verif/build/<tag>. Returns info dict."""
    t0 = time.time()
    bdir = os.path.join(VERIF, "build", tag)
    os.makedirs(bdir, exist_ok=True)
    odir = os.path.join(bdir, "obj")
    shutil.rmtree(odir, ignore_errors=True)
    os.makedirs(odir)
    cfginc = write_config_h(bdir)
    inc = includes(cfginc)
    prdata_src, lib_src = parse_meson_sources()
    info = {"lib_sources": lib_src, "prdata_sources": prdata_src}

    # --- step 2: the repo's own generator, uninstrumented, gcc
    gen_c = os.path.join(bdir, "xrayglob_inline.c")
    if os.path.exists(gen_c):
        os.unlink(gen_c)

    def cc_prdata(f):
        o = os.path.join(odir, "pr_" + f[:-2] + ".o")
        sh(["gcc", "-O1", "-w", "-DHAVE_CONFIG_H", "-D_GNU_SOURCE"] + inc + ["-c", os.path.join(REPO, "src", f), "-o", o])
        return o

    def cc_lib(f):
        o = os.path.join(odir, f[:-2] + ".o")
        sh([CLANG] + BASE + SAN + COV + ["-w", "-include", os.path.join(SIM, "xs_atomics.h")] + inc + ["-c", os.path.join(REPO, "src", f), "-o", o])
        return o

    def cc_lib_o0(f):
        # build configuration "O0" (DESIGN 5.1 g): the same sources without optimisation, so that every local variable
        # lives in a stack slot -- at -O1 an uninitialised scalar is an `undef` register value that no scrub can reach
        o = os.path.join(odir, "o0_" + f[:-2] + ".o")
        flags = [x for x in BASE if not x.startswith("-O")] + ["-O0"]
        sh([CLANG] + flags + SAN + COV + ["-w", "-include", os.path.join(SIM, "xs_atomics.h")] + inc + ["-c", os.path.join(REPO, "src", f), "-o", o])
        return o

    with cf.ThreadPoolExecutor(jobs) as ex:
        lib_futs = [ex.submit(cc_lib, f) for f in lib_src]
        o0_futs = [ex.submit(cc_lib_o0, f) for f in lib_src] if o0 else []
        pr_objs = list(ex.map(cc_prdata, prdata_src))
        prdata = os.path.join(bdir, "prdata")
        sh(["gcc", "-o", prdata] + pr_objs + ["-lm"])
        r = subprocess.run([prdata, REPO, gen_c], stdout=subprocess.PIPE, stderr=subprocess.STDOUT, text=True, timeout=300)
        if r.returncode != 0 or not os.path.exists(gen_c):
            raise BuildError("prdata failed: rc=%d\n%s" % (r.returncode, r.stdout[-2000:]))
        tab_o = os.path.join(odir, "xrayglob_inline.o")
        tab_fut = ex.submit(table_object, gen_c, tab_o, inc)
        k_fut = ex.submit(build_kissel_table, bdir, odir, prdata, inc) if kissel else None
        # --- simulator objects (cached by content)
        nq = gen_query_table(bdir)
        info["queries"], info["nist_names"], info["rn_names"] = nq
        sim_srcs = sorted(f for f in os.listdir(SIM) if f.endswith(".cc"))
        hdrs = [os.path.join(SIM, f) for f in os.listdir(SIM) if f.endswith(".h")] + [os.path.join(bdir, "gen_queries.inc")]
        pub_hdrs = [os.path.join(REPO, "include", f) for f in sorted(os.listdir(os.path.join(REPO, "include"))) if f.endswith(".h")]
        cachedir = os.path.join(VERIF, "build", "simcache")
        os.makedirs(cachedir, exist_ok=True)
        simflags = ["-std=c++17", "-O1", "-g", "-fno-omit-frame-pointer", "-fsanitize=address", "-Wall", "-Wno-unused-function",
                    "-D_GNU_SOURCE", "-I" + bdir, "-I" + SIM] + inc

        def cc_sim(f):
            key = file_hash([os.path.join(SIM, f)] + hdrs + pub_hdrs, " ".join(simflags))
            o = os.path.join(cachedir, f[:-3] + "-" + key + ".o")
            if not os.path.exists(o):
                tmp = o + ".tmp%d" % os.getpid()
                sh([CLANGXX] + simflags + ["-c", os.path.join(SIM, f), "-o", tmp])
                os.replace(tmp, o)
            return o
        sim_futs = [ex.submit(cc_sim, f) for f in sim_srcs]
        lib_objs = [f.result() for f in lib_futs]
        tab_fut.result()
        sim_objs = [f.result() for f in sim_futs]

    # per-object symbol tables (table set for the write monitor, DESIGN §5.3)
    tabsyms = os.path.join(bdir, "tables.sym")
    with open(tabsyms, "w") as f:
        f.write(sh(["nm", "-S", "--defined-only", tab_o]))
    libsyms = os.path.join(bdir, "libfuncs.sym")
    merged = os.path.join(odir, "libmerged.o")
    sh(["ld", "-r", "-o", merged] + lib_objs + [tab_o])
    with open(libsyms, "w") as f:
        f.write(sh(["nm", "-S", "--defined-only", merged]))
    # table symbols of the catalogue files: names defined by the internal headers
    cat_names = set()
    for h in ("xraylib-nist-compounds-internal.h", "xraylib-radionuclides-internal.h"):
        p = os.path.join(REPO, "src", h)
        if os.path.exists(p):
            t = strip_comments(open(p).read())
            cat_names.update(re.findall(r"\b(\w+)\s*(?:\[[^\]]*\])+\s*=", t))
            cat_names.update(re.findall(r"\b(\w+)\s*=\s*[\d{]", t))
    with open(os.path.join(bdir, "catalogue.names"), "w") as f:
        f.write("\n".join(sorted(cat_names)) + "\n")
    xv = ""
    try:
        xv = sh(["nm", "-S", "--defined-only", os.path.join(odir, "xrayvars.o")])
    except Exception:
        pass
    with open(os.path.join(bdir, "xrayvars.sym"), "w") as f:
        f.write(xv)

    # --- step 4/5: seams
    und = [l.split()[-1] for l in sh(["nm", "--undefined-only", merged]).splitlines() if l.strip()]
    seam_map = os.path.join(bdir, "seams.map")
    with open(seam_map, "w") as f:
        for s in SEAMS:
            f.write("%s xs_%s\n" % (s, s))
        for s in SEAM_ALIASES:      # objcopy wants distinct targets: rt.cc defines xs_<alias> as an alias symbol of xs_<base>
            f.write("%s xs_%s\n" % (s, s))
    final = os.path.join(odir, "libxrl_sim.o")
    sh(["objcopy", "--redefine-syms=" + seam_map, merged, final])
    unmodelled = sorted(u for u in und if u not in SEAMS and u not in SEAM_ALIASES and u not in ALLOW and not u.startswith(SAN_PREFIXES))
    info["unmodelled_externals"] = unmodelled
    info["seams_used"] = sorted(u for u in und if u in SEAMS or u in SEAM_ALIASES)
    info["mt_unsafe_used"] = sorted(u for u in und if u in MT_UNSAFE)
    # atomics / lock-prefixed instructions (DESIGN §2.5): functions that contain an atomic read-modify-write, an
    # xchg with memory, a fence or a call to an __atomic_* helper.  A race report whose two sites both lie in such
    # functions is downgraded to "unmodelled synchronisation": C11 atomics compile to instrumented plain accesses
    # and the vector clocks know nothing about the ordering they establish.
    atomic_funcs = set()
    try:
        dis = sh(["objdump", "-d", "-r", "--no-show-raw-insn", merged])
        cur = None
        nlock = 0
        for ln in dis.splitlines():
            m = re.match(r"^[0-9a-f]+ <([^>]+)>:$", ln)
            if m:
                cur = m.group(1)
                continue
            if cur is None or "__asan" in ln or "__sanitizer" in ln:
                continue
            t = ln.split("\t")
            ins = t[-1] if t else ln
            if re.match(r"\s*lock\b", ins) or re.match(r"\s*(mfence|cmpxchg)", ins) or (re.match(r"\s*xchg\b", ins) and "(" in ins) or "__atomic_" in ln:
                atomic_funcs.add(cur)
                nlock += 1
        info["lock_insns"] = nlock
        info["atomic_refs"] = sorted(set(u for u in und if u.startswith("__atomic_")))
    except Exception:
        info["lock_insns"] = -1
        info["atomic_refs"] = []
    # acquire/release loads and stores are plain moves on x86: find them in the LLVM IR of the sources instead
    def ir_atomics(f):
        try:
            ir = sh([CLANG, "-O1", "-S", "-emit-llvm", "-w", "-DHAVE_CONFIG_H", "-D_GNU_SOURCE"] + inc + [os.path.join(REPO, "src", f), "-o", "-"])
        except BuildError:
            return set()
        out, cur = set(), None
        for ln in ir.splitlines():
            m = re.match(r"^define .*@([\w.$]+)\(", ln)
            if m:
                cur = m.group(1)
            elif ln.startswith("}"):
                cur = None
            elif cur and re.search(r"\b(load atomic|store atomic|atomicrmw|cmpxchg|fence)\b", ln):
                out.add(cur)
        return out
    with cf.ThreadPoolExecutor(jobs) as ex2:
        for r in ex2.map(ir_atomics, lib_src):
            atomic_funcs |= r
    info["atomic_funcs"] = sorted(atomic_funcs)
    with open(os.path.join(bdir, "atomic_funcs.txt"), "w") as f:
        f.write("\n".join(sorted(atomic_funcs)) + ("\n" if atomic_funcs else ""))
    exe = os.path.join(bdir, "xrlsim")
    sh([CLANGXX, "-fsanitize=address,undefined", "-g", "-o", exe] + sim_objs + [final, "-lm", "-lpthread", "-ldl"])
    with open(os.path.join(bdir, "exe.sym"), "w") as f:
        f.write(sh(["nm", "-n", "-S", "--defined-only", exe]))
    os.unlink(merged)
    shutil.copyfile(os.path.join(REPO, "data", "Crystals.dat"), os.path.join(bdir, "Crystals.dat"))
    if k_fut is not None:
        tab_k, nel = k_fut.result()
        kdir = os.path.join(bdir, "K")
        shutil.rmtree(kdir, ignore_errors=True)
        os.makedirs(kdir)
        with open(os.path.join(kdir, "tables.sym"), "w") as f:
            f.write(sh(["nm", "-S", "--defined-only", tab_k]))
        merged_k = os.path.join(odir, "libmerged_K.o")
        sh(["ld", "-r", "-o", merged_k] + lib_objs + [tab_k])
        with open(os.path.join(kdir, "libfuncs.sym"), "w") as f:
            f.write(sh(["nm", "-S", "--defined-only", merged_k]))
        final_k = os.path.join(odir, "libxrl_sim_K.o")
        sh(["objcopy", "--redefine-syms=" + seam_map, merged_k, final_k])
        os.unlink(merged_k)
        exe_k = os.path.join(kdir, "xrlsim")
        sh([CLANGXX, "-fsanitize=address,undefined", "-g", "-o", exe_k] + sim_objs + [final_k, "-lm", "-lpthread", "-ldl"])
        with open(os.path.join(kdir, "exe.sym"), "w") as f:
            f.write(sh(["nm", "-n", "-S", "--defined-only", exe_k]))
        for f in ("catalogue.names", "xrayvars.sym", "Crystals.dat", "atomic_funcs.txt"):
            shutil.copyfile(os.path.join(bdir, f), os.path.join(kdir, f))
        os.unlink(final_k)
        os.unlink(tab_k)
        shutil.rmtree(os.path.join(bdir, "kroot"), ignore_errors=True)
        info["exe_K"] = exe_k
        info["bdir_K"] = kdir
        info["kissel_elements_converted"] = nel
    if o0:
        o0_objs = [f.result() for f in o0_futs]
        vdir = os.path.join(bdir, "O0")
        shutil.rmtree(vdir, ignore_errors=True)
        os.makedirs(vdir)
        merged_v = os.path.join(odir, "libmerged_O0.o")
        sh(["ld", "-r", "-o", merged_v] + o0_objs + [tab_o])
        with open(os.path.join(vdir, "libfuncs.sym"), "w") as f:
            f.write(sh(["nm", "-S", "--defined-only", merged_v]))
        final_v = os.path.join(odir, "libxrl_sim_O0.o")
        sh(["objcopy", "--redefine-syms=" + seam_map, merged_v, final_v])
        os.unlink(merged_v)
        exe_v = os.path.join(vdir, "xrlsim")
        sh([CLANGXX, "-fsanitize=address,undefined", "-g", "-o", exe_v] + sim_objs + [final_v, "-lm", "-lpthread", "-ldl"])
        with open(os.path.join(vdir, "exe.sym"), "w") as f:
            f.write(sh(["nm", "-n", "-S", "--defined-only", exe_v]))
        for f in ("tables.sym", "catalogue.names", "xrayvars.sym", "Crystals.dat", "atomic_funcs.txt"):
            shutil.copyfile(os.path.join(bdir, f), os.path.join(vdir, f))
        os.unlink(final_v)
        info["exe_O0"] = exe_v
        info["bdir_O0"] = vdir
    info["exe"] = exe
    info["bdir"] = bdir
    info["build_s"] = round(time.time() - t0, 2)
    json.dump(info, open(os.path.join(bdir, "build.json"), "w"), indent=1)
    return info


def build_locale():
    """Compile the decimal-comma test locale xx_XX from hand-written sources (DESIGN §2.6)."""
    out = os.path.join(VERIF, "build", "locale", "xx_XX")
    if os.path.exists(os.path.join(out, "LC_NUMERIC")):
        return out
    os.makedirs(os.path.dirname(out), exist_ok=True)
    src = os.path.join(VERIF, "locale", "xx_XX.src")
    cm = os.path.join(VERIF, "locale", "ASCII.cm")
    r = subprocess.run(["localedef", "-c", "-i", src, "-f", cm, out], stdout=subprocess.PIPE, stderr=subprocess.STDOUT, text=True)
    if not os.path.exists(os.path.join(out, "LC_NUMERIC")):
        raise BuildError("localedef failed: " + r.stdout[-2000:])
    return out


if __name__ == "__main__":
    i = build(sys.argv[1] if len(sys.argv) > 1 else "dev", verbose=True)
    print(json.dumps({k: v for k, v in i.items() if k not in ("lib_sources", "prdata_sources")}, indent=1))
