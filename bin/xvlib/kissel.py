"""Re-implementation of data/kissel/kissel.pro (IDL) in Python: raw Kissel photo-ionisation files
data/kissel/NNN_pe0sl  ->  kissel_pe.dat in the layout src/xrayfiles.c reads.

The tree under test ships an EMPTY data/kissel_pe.dat, so with the shipped data every Kissel / XRF entry point
only runs its error path.  This module builds the optional second data configuration "K" (DESIGN §9): the table
the upstream generator would produce from the raw files that ARE in the tree.  For the claimed properties only
self-consistency of the result matters (ascending knots, finite values, positive counts) — every oracle of this
framework is memory-, state- or schedule-based — not agreement with the IDL output to the last digit.
"""
import math
import os
import re

SHELLS = ["K", "L1", "L2", "L3", "M1", "M2", "M3", "M4", "M5", "N1", "N2", "N3", "N4", "N5", "N6", "N7",
          "O1", "O2", "O3", "O4", "O5", "O6", "O7", "P1", "P2", "P3", "P4", "P5", "Q1", "Q2", "Q3"]
# (n, kappa) -> shell index, as in ss_config of kissel.pro
NK = {(1, -1): 0,
      (2, -1): 1, (2, 1): 2, (2, -2): 3,
      (3, -1): 4, (3, 1): 5, (3, -2): 6, (3, 2): 7, (3, -3): 8,
      (4, -1): 9, (4, 1): 10, (4, -2): 11, (4, 2): 12, (4, -3): 13, (4, 3): 14, (4, -4): 15,
      (5, -1): 16, (5, 1): 17, (5, -2): 18, (5, 2): 19, (5, -3): 20, (5, 3): 21, (5, -4): 22,
      (6, -1): 23, (6, 1): 24, (6, -2): 25, (6, 2): 26, (6, -3): 27,
      (7, -1): 28, (7, 1): 29, (7, -2): 30}


def deriv(x, y):
    """IDL DERIV: three-point Lagrangian derivative."""
    n = len(x)
    if n < 3:
        return [0.0] * n
    d = [0.0] * n
    for i in range(1, n - 1):
        x0, x1, x2 = x[i - 1], x[i], x[i + 1]
        d[i] = (y[i - 1] * (x1 - x2) / ((x0 - x1) * (x0 - x2)) + y[i] * (1.0 / (x1 - x2) - 1.0 / (x0 - x1))
                - y[i + 1] * (x0 - x1) / ((x0 - x2) * (x1 - x2)))
    x0, x1, x2 = x[0], x[1], x[2]
    d[0] = (y[0] * ((x0 - x1) + (x0 - x2)) / ((x0 - x1) * (x0 - x2)) - y[1] * (x0 - x2) / ((x0 - x1) * (x1 - x2))
            + y[2] * (x0 - x1) / ((x0 - x2) * (x1 - x2)))
    x0, x1, x2 = x[n - 3], x[n - 2], x[n - 1]
    d[n - 1] = (-y[n - 3] * (x1 - x2) / ((x0 - x1) * (x0 - x2)) + y[n - 2] * (x0 - x2) / ((x0 - x1) * (x1 - x2))
                - y[n - 1] * ((x0 - x2) + (x1 - x2)) / ((x0 - x2) * (x1 - x2)))
    return d


NUM2 = re.compile(r"^\s*([-+]?\d\.\d+E[-+]\d+)\s+([-+]?\d\.\d+E[-+]\d+)\s*$")


def table(lines, start):
    """(log E, log cs, second derivative) of the two-column numeric block that follows line `start`."""
    es, cs = [], []
    i = start
    while i < len(lines):
        ln = lines[i]
        if "END OF DATA" in ln:
            break
        m = NUM2.match(ln)
        if m:
            e, c = float(m.group(1)), float(m.group(2))
            if e > 0 and c > 0 and (not es or math.log(e) > es[-1]):
                es.append(math.log(e))
                cs.append(math.log(c))
        i += 1
    d2 = deriv(es, deriv(es, cs)) if len(es) >= 3 else [0.0] * len(es)
    d2 = [0.0 if (not math.isfinite(v) or v < -1.0 or v > 1.0) else v for v in d2]
    return es, cs, d2


def convert_one(path):
    lines = open(path, errors="replace").read().splitlines()
    idx = {}
    for i, ln in enumerate(lines):
        if ln.startswith("*BLOCK:"):
            idx.setdefault(ln[7:].strip(), i)
    out = []
    tot = table(lines, idx.get("TOTAL", 0) + 1)
    out.append("%d" % len(tot[0]))
    for e, c, d in zip(*tot):
        out.append("%.10e %.10e %.10e" % (e, c, d))
    config = [0.0] * 31
    edge = [0.0] * 31
    ci = idx.get("CONFIGURATION")
    if ci is not None:
        for ln in lines[ci + 1:]:
            if "END OF DATA" in ln:
                break
            f = ln.split()
            if len(f) == 8:
                try:
                    n, kappa = int(f[0]), int(f[1])
                    occ, be = float(f[4]), float(f[5])
                except ValueError:
                    continue
                k = NK.get((n, kappa))
                if k is not None:
                    config[k] = occ
                    edge[k] = be
    for v in config:
        out.append("%.6f" % v)
    for k, name in enumerate(SHELLS):
        if config[k] == 0.0 or name not in idx:
            out.append("0")
            continue
        t = table(lines, idx[name] + 1)
        if len(t[0]) < 2:
            out.append("0")
            continue
        out.append("%d" % len(t[0]))
        out.append("%.8e" % edge[k])
        for e, c, d in zip(*t):
            out.append("%.10e %.10e %.10e" % (e, c, d))
    return "\n".join(out) + "\n"


def convert(kissel_dir, out_path):
    files = sorted(f for f in os.listdir(kissel_dir) if re.match(r"^\d{3}_pe0", f))
    by_z = {int(f[:3]): f for f in files}
    n = 0
    with open(out_path, "w") as out:
        z = 1
        while z in by_z:      # the reader stops at the first element without data
            out.write(convert_one(os.path.join(kissel_dir, by_z[z])))
            z += 1
            n += 1
    return n


if __name__ == "__main__":
    import sys
    print(convert(sys.argv[1], sys.argv[2]))
