// Op vocabulary shared by all engines: plan data, generation, (de)serialisation, execution (DESIGN §2.2, §3).
#pragma once
#include "rt.h"
#include "xsched.h"
#include <map>
#include <string>
#include <vector>

namespace xs {

enum OpKind {
  OK_Q = 0,      // query from the generated table
  OK_PARSE,      // CompoundParser -> COMPOUND
  OK_ADDCD,      // add_compound_data(h0,w0,h1,w1) -> COMPOUND
  OK_NIST_NAME, OK_NIST_IDX, OK_NIST_LIST,
  OK_RN_NAME, OK_RN_IDX, OK_RN_LIST,
  OK_A2S, OK_S2A,
  OK_ERR_COPY, OK_ERR_MATCH, OK_ERR_PROP, OK_ERR_CLEAR,
  OK_CA_INIT, OK_CA_ADD, OK_CA_READ, OK_CA_GET, OK_CA_LIST, OK_CA_FILL,
  OK_CR_COPY, OK_CR_MUT, OK_CR_MATH, OK_ATOMFAC,
  OK_FREE, OK_INIT, OK_DEPRECATED, OK_ERR_NEW, OK_MISC,
  OK_N
};
extern const char* const kOpNames[OK_N];

enum HandleType { HT_NONE = 0, HT_COMPOUND, HT_NIST, HT_RN, HT_STRLIST, HT_STRING, HT_ERROR, HT_CRYSTAL, HT_ARRAY };

struct CrystalSpec {
  std::string name;
  bool name_null = false;
  uint64_t cseed = 0;  // atoms and cell are expanded deterministically from this
  int natoms = 0;
  int cellclass = 0;   // 0 cubic-ish, 1 triclinic well-conditioned, 2 degenerate (volume not compared), 3 huge/odd numbers
  int zclass = 0;      // 0 valid Z (1..98), 1 includes out-of-range Z
};

enum FileMut {
  FM_NONE = 0, FM_NO_UCELL, FM_DUP_UCELL, FM_BAD_UCELL, FM_NO_L, FM_SHORT_ATOM, FM_NONNUM_ATOM, FM_LONG_LINE, FM_NO_EOF,
  FM_TRUNC_TEXT, FM_RANDOM_BYTES, FM_EMPTY, FM_LONG_NAME, FM_BAD_S, FM_EXTRA_COLS, FM_CRLF, FM_NO_ATOMS, FM_NO_FINAL_NL, FM_NUM_SYNTAX, FM_N
};
extern const char* const kFileMutNames[FM_N];

struct FileSpec {
  std::vector<CrystalSpec> crystals;
  int mut = FM_NONE;
  uint64_t mseed = 0;     // where the mutation lands
  // faults (attached to the op, DESIGN §2.6)
  int open_errno = 0;
  long eio_at = -1, trunc_at = -1;
  int chunk = 0;
  bool unseekable = false;
  bool name_null = false; // pass NULL as file name
};

struct Op {
  int id = 0;          // stable id (survives shrinking)
  int kind = OK_Q;
  std::string fn;      // OK_Q: function name; OK_CR_MATH: which; OK_DEPRECATED: which
  int i[4] = {0, 0, 0, 0};
  double d[12] = {0, 0, 0, 0, 0, 0, 0, 0, 0, 0, 0, 0};
  std::string s;
  bool snull = false;
  int slot = 1;        // 1: fresh empty error slot, 0: NULL
  int keep = 0;        // keep a produced error as a handle
  int fail = 0;        // k-th allocation of this op fails (0: none)
  int h[2] = {-1, -1}; // input handles, named by the id of the op that created them; -2 = built-in array
  int probe = 0;       // purity: result compared with first-call-in-fresh-process
  int selfc = 0;       // self-contained: a created object is digested and released inside the op
  CrystalSpec cs;
  FileSpec fs;
};

struct TaskPlan { std::vector<Op> ops; int tloc = 0; /* caller's own thread locale, rt.h TLOC_* */ int wave = 0; /* threads engine: started after all tasks of lower waves have exited */ };

struct Plan {
  std::string engine, batch;
  std::string data = "shipped";   // data configuration the plan was found in: shipped | K (Kissel table regenerated)
  uint64_t seed = 0, runseed = 0;
  int locale = LOC_C;
  int reuse = 0;                  // allocator reuse mode: freed blocks are handed out again at once (rt.cc)
  int errno_mode = 0;             // caller's errno before each library call: 0 always zero, 1 drawn per op from a small set
  int perturb = 0;                // mem engine: also execute the partner run with another `fill` and compare results
  int fill = 0;                   // byte that fresh heap blocks and dead stack slots hold (0: default); perturbation partner of a run
  std::vector<Op> setup;          // executed by the controller before tasks start (shared read-only objects)
  std::vector<TaskPlan> tasks;
  SchedCfg sched;
  std::string expect;             // replay files: expected violation signature
  int next_id = 1;
  size_t nops() const { size_t n = setup.size(); for (auto& t : tasks) n += t.ops.size(); return n; }
};

void procstate_capture();   // C16: process state other than memory, baseline before the first op (ops_exec.cc)
void procstate_final();
std::string plan_to_text(const Plan& p);
bool plan_from_text(const std::string& txt, Plan& p, std::string* err);
uint64_t plan_hash(const Plan& p);
std::string op_to_text(const Op& o);

// ---------------------------------------------------------------- generation
struct GenCfg {
  int min_ops = 1, max_ops = 40;
  bool alloc_faults = false, file_faults = false;
  bool threadsafe_only = false;   // C17 vocabulary
  bool allow_builtin_mod = true;
  bool crystal_focus = false;     // C14 workload
  int w_query = 30, w_alloc = 50, w_crystal = 20;
  int locale = LOC_C;
  bool probes = false;            // purity
  bool no_oob_crystal_Z = false;  // quarantine helper
  int focus_strength = 0;         // 1: four fifths of the ops are focus ops and three quarters of their macro arguments the focus value (threads engine)
  int nfocus = 0;                 // >0: most query ops of the history come from these few entry points ...
  int focus_q[3] = {0, 0, 0};
  int focus_macro = 0;            // ... and half of their macro arguments (shell/line/trans/auger) take this value
  bool focus_macro_set = false;
  std::vector<std::string> focus_strings;   // ... and most of their string arguments come from this per-run list
};
struct QueryDef { const char* name; void* fn; char ret; const char* shape; int shape_id; const char* cls[14]; };
extern const QueryDef g_queries[];
extern const int g_nqueries;
const QueryDef* query_find(const char* name);

Op gen_query_op(Rng& r, int id);
Op gen_query_op_for(Rng& r, int id, int query_index);
void set_focus(Rng& r, GenCfg& cfg);
Op gen_self_contained_op(Rng& r, int id, bool crystal_catalogue);   // probe-able op (no handles in or out)
std::string gen_formula(Rng& r, int depth);
std::string gen_compound_arg(Rng& r, bool* is_null);
CrystalSpec gen_crystal_spec(Rng& r, const std::vector<std::string>& namepool);
FileSpec gen_file_spec(Rng& r, const std::vector<std::string>& namepool, bool faults);
void gen_history(Rng& r, const GenCfg& cfg, std::vector<Op>& out, int& next_id, int first_shared_array = -1);

// ---------------------------------------------------------------- crystal expansion (harness-owned memory)
struct CAtom { int Z; double frac, x, y, z; };
struct CrystalData {
  std::string name;
  bool name_null = false;
  double cell[6];
  std::vector<CAtom> atoms;
  bool has_pristine_volume = false;   // shipped built-in entry: the generator stored a float-rounded volume
  double pristine_volume = 0;
  double model_volume() const;   // harness's own triclinic formula
  bool volume_comparable() const;
  // a crystal nobody could call malformed: short plain-ASCII name, at least one atom of a tabulated element, ordinary
  // cell.  Only these MUST be accepted; a library may reject anything else as long as it does so cleanly (C14: "a
  // rejected or malformed addition leaves the collection as it was").
  bool plain() const;
};
CrystalData expand_crystal(const CrystalSpec& s);
std::string render_crystal_file(const FileSpec& fs, bool* wellformed, std::vector<CrystalData>* contents, long* data_end = nullptr, bool* layout_only = nullptr);
extern std::vector<CrystalData> g_builtin_crystals;   // parsed independently from data/Crystals.dat
void load_builtin_crystals(const char* path);

// ---------------------------------------------------------------- execution
struct ArrayModel {
  bool builtin = false;
  int init_cap = 0;
  std::map<std::string, CrystalData> dict;
  bool learned = false;   // contains entries learnt from an accepted malformed file
};

struct Handle {
  int type = HT_NONE;
  void* p = nullptr;
  int n = 0;                 // list length
  int born = 0;              // op sequence number when created
  ArrayModel* am = nullptr;
  CrystalData cd;            // HT_CRYSTAL: expected contents (when known)
  bool cd_known = false;
  int err_code = 0;          // HT_ERROR: code and message at creation
  std::string err_msg;
  bool shared = false;       // created in setup, read-only for tasks
};

enum LeakScope { LEAKS_ALL = 0, LEAKS_CRYSTAL_OPS = 1, LEAKS_NONE = 2 };

struct ExecHooks {
  bool deep_crystal_checks = false;   // C14 oracle after every op
  bool purity_monitors = false;       // C16 oracle 2 after every op
  bool errno_mode = false;            // the caller's errno is not 0 at most calls (plan field errno_mode)
  int leak_scope = LEAKS_ALL;         // which leftover blocks this engine's property is about
};

struct Exec {
  int task = 0;
  std::map<int, Handle> handles;       // by creating op id
  std::map<int, Handle>* shared = nullptr;  // setup handles (read-only)
  ExecHooks hooks;
  int seq = 0;
  bool stopped = false;                // run stopped (oom swallowed)
  ArrayModel builtin_model;
  long stderr_expected = 0;
  Exec();
  ~Exec();
  void run_op(const Op& op);
  void release_all();                  // free every handle still held, each exactly once
  Handle* find(int id);
};

void final_leak_check(std::vector<Exec*>& execs, int scope = LEAKS_ALL);
void init_builtin_model(ArrayModel& m);

}  // namespace xs
