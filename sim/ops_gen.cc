// Plan generation and (de)serialisation.  Pure harness code: never calls the library.
#include "ops.h"
#include <algorithm>
#include <float.h>
#include <limits.h>
#include <math.h>
#include <stdlib.h>
#include <string.h>

namespace xs {

const char* const kOpNames[OK_N] = {"Q", "PARSE", "ADDCD", "NIST_NAME", "NIST_IDX", "NIST_LIST", "RN_NAME", "RN_IDX", "RN_LIST",
                                    "A2S", "S2A", "ERR_COPY", "ERR_MATCH", "ERR_PROP", "ERR_CLEAR", "CA_INIT", "CA_ADD", "CA_READ",
                                    "CA_GET", "CA_LIST", "CA_FILL", "CR_COPY", "CR_MUT", "CR_MATH", "ATOMFAC", "FREE", "INIT",
                                    "DEPRECATED", "ERR_NEW", "MISC"};
const char* const kFileMutNames[FM_N] = {"none", "no_ucell", "dup_ucell", "bad_ucell", "no_L", "short_atom_row", "nonnumeric_atom_row",
                                         "long_line", "no_EOF_marker", "truncated_text", "random_bytes", "empty", "long_name", "bad_S_line",
                                         "extra_columns", "crlf", "no_atoms", "no_final_newline", "number_syntax"};

#define XQ_NAMES
#include "gen_queries.inc"
#undef XQ_NAMES

static const char* const kSymbols[] = {
    "H", "He", "Li", "Be", "B", "C", "N", "O", "F", "Ne", "Na", "Mg", "Al", "Si", "P", "S", "Cl", "Ar", "K", "Ca", "Sc", "Ti", "V",
    "Cr", "Mn", "Fe", "Co", "Ni", "Cu", "Zn", "Ga", "Ge", "As", "Se", "Br", "Kr", "Rb", "Sr", "Y", "Zr", "Nb", "Mo", "Tc", "Ru", "Rh",
    "Pd", "Ag", "Cd", "In", "Sn", "Sb", "Te", "I", "Xe", "Cs", "Ba", "La", "Ce", "Pr", "Nd", "Pm", "Sm", "Eu", "Gd", "Tb", "Dy", "Ho",
    "Er", "Tm", "Yb", "Lu", "Hf", "Ta", "W", "Re", "Os", "Ir", "Pt", "Au", "Hg", "Tl", "Pb", "Bi", "Po", "At", "Rn", "Fr", "Ra", "Ac",
    "Th", "Pa", "U", "Np", "Pu", "Am", "Cm", "Bk", "Cf", "Es", "Fm", "Md", "No", "Lr", "Rf", "Db", "Sg", "Bh"};
static const int kNSymbols = sizeof kSymbols / sizeof kSymbols[0];

static int count_names(const char* const* a) { int n = 0; while (a[n]) n++; return n; }

// ------------------------------------------------------------------ argument generators
static int gen_Z(Rng& r) {
  int c = r.range(0, 99);
  if (c < 25) { static const int pool[] = {1, 6, 8, 14, 20, 26, 29, 47, 79, 82, 92}; return pool[r.below(11)]; }
  if (c < 60) return r.range(1, 98);
  if (c < 75) return r.range(1, 30);
  if (c < 85) return r.range(99, 120);
  if (c < 95) return r.range(-3, 125);
  static const int odd[] = {INT_MIN, INT_MAX, 1000, -1, 0, 121, 120, 119, 108, 107, 256, 65536, -120};
  return odd[r.below(sizeof odd / sizeof odd[0])];
}
static int gen_macro(Rng& r, int lo, int hi) {  // legal range [lo,hi]
  int c = r.range(0, 99);
  if (c < 75) return r.range(lo, hi);
  if (c < 92) return r.range(lo - 5, hi + 5);
  static const int odd[] = {INT_MIN, INT_MAX, 1000, -1000, 65535, -65536, 384, -384, 31, 28, 29, 30, 996};
  return odd[r.below(sizeof odd / sizeof odd[0])];
}
// A third of all arguments come from small pools, so that different ops of one run (and probes vs. history ops)
// share some arguments and differ in others: a cache keyed on too few arguments needs exactly that to show.
static const double kEPool[] = {8.0, 12.0, 17.4, 8.047, 20.0, 5.0, 59.54, 1.0, 100.0};
static double gen_E(Rng& r) {
  int c = r.range(0, 99);
  if (c < 30) return kEPool[r.below(sizeof kEPool / sizeof kEPool[0])];
  if (c < 60) return exp(log(0.1) + r.unit() * (log(1000.0) - log(0.1)));
  if (c < 70) return (double)r.range(1, 100);
  if (c < 80) return exp(log(1e-6) + r.unit() * (log(1e6) - log(1e-6)));
  static const double odd[] = {0.0, -1.0, 1.0, 0.1, 0.0999999, 0.1000001, 800.0, 1000.0, 999.9999, 1000.0001, 1e-300, 1e300, DBL_MAX,
                               DBL_MIN, 4.9e-324, -0.0, -1e-9, 1e-3, 100.0, 10000.0, 5.0, 20.0, 50.0};
  return odd[r.below(sizeof odd / sizeof odd[0])];
}
static double gen_angle(Rng& r) {
  int c = r.range(0, 99);
  if (c < 60) return r.unit() * M_PI;
  if (c < 75) return r.unit() * 2 * M_PI;
  static const double odd[] = {0.0, M_PI / 2, M_PI, -M_PI / 3, 7.0, 100.0, 1e10, -0.0, 1e-12, M_PI / 4, 2 * M_PI, -1e6, 1e300};
  return odd[r.below(sizeof odd / sizeof odd[0])];
}
static double gen_q(Rng& r) {
  int c = r.range(0, 99);
  if (c < 60) return r.unit() * 10;
  if (c < 80) return exp(log(1e-4) + r.unit() * (log(1e4) - log(1e-4)));
  static const double odd[] = {0.0, -1.0, 1e9, 1e300, 100.0, 1e-300, -0.0, 1.0, 50.0, 1e5, 1e10};
  return odd[r.below(sizeof odd / sizeof odd[0])];
}
static double gen_density(Rng& r) {
  int c = r.range(0, 99);
  if (c < 60) return 0.1 + r.unit() * 20;
  static const double odd[] = {0.0, -1.0, 1.0, 1e-300, 1e300, -0.0, 2.5};
  return odd[r.below(sizeof odd / sizeof odd[0])];
}

std::string gen_formula(Rng& r, int depth) {
  std::string f;
  int groups = r.range(1, depth > 2 ? 2 : 4);
  for (int g = 0; g < groups && f.size() < 100; g++) {
    bool paren = depth < 5 && r.chance(1, 4);
    if (paren) {
      f += "(" + gen_formula(r, depth + 1) + ")";
    } else {
      // weight towards light, common elements
      int k = r.chance(2, 3) ? r.range(0, 30) : r.range(0, kNSymbols - 1);
      f += kSymbols[k];
    }
    int c = r.range(0, 9);
    char b[32];
    if (c < 4) {
    } else if (c < 8) {
      snprintf(b, sizeof b, "%d", r.range(1, 20));
      f += b;
    } else {
      snprintf(b, sizeof b, "%d.%d", r.range(0, 9), r.range(1, 99));
      f += b;
    }
  }
  return f;
}

// Every caller-supplied string now and then comes in a long variant with a length at or next to a power of two
// (fixed-size scratch buffers and "n vs n+1" slips in message formatting only show there).
static std::string maybe_long(Rng& r, std::string s) {
  if (!r.chance(1, 25)) return s;
  static const int lens[] = {63, 64, 65, 127, 128, 129, 200, 211, 212, 213, 255, 256, 257, 300, 511, 512, 513, 1023, 1024, 1025, 4095, 4096, 4097, 9000};
  size_t want = (size_t)lens[r.below(sizeof lens / sizeof lens[0])];
  static const char fill[] = "abcdefghijklmnopqrstuvwxyzABCDEFGHIJKLMNOPQRSTUVWXYZ0123456789";
  if (s.empty()) s = "L";
  while (s.size() < want) s += fill[r.below(sizeof fill - 1)];
  return s;
}

static std::string mutate_string(Rng& r, std::string s) {
  if (s.empty()) return "x";
  int c = r.range(0, 7);
  size_t p = r.below(s.size());
  switch (c) {
    case 7: {  // complete multibyte characters (the loose bytes of cases 1 and 2 are never a valid UTF-8 sequence)
      static const char* const u[] = {"\xc2\xb7", "\xe2\x82\x82", "\xce\xb1", "\xc3\xa9", "\xe2\x80\x93", "\xf0\x9f\x92\x8e", "\xc2\xa0"};
      s.insert(p, u[r.below(sizeof u / sizeof u[0])]);
      break;
    }
    case 6: {  // conversion specifications: a caller's string must never be used as a format
      static const char* const f[] = {"%s", "%n", "%s%s%s%s", "%d%n", "%1000000d", "%%", "%ls", "%*d", "%hhn", "%1$s"};
      s.insert(p, f[r.below(sizeof f / sizeof f[0])]);
      break;
    }
    case 0: s.erase(p, 1); break;
    case 1: s.insert(p, 1, (char)r.range(1, 255)); break;
    case 2: s[p] = (char)r.range(1, 255); break;
    case 3: s.insert(p, 1, "()[]. #aZ0"[r.below(10)]); break;
    case 4: s = s.substr(0, p); break;
    default: s += s; break;
  }
  return s;
}

std::string gen_compound_arg(Rng& r, bool* is_null) {
  *is_null = false;
  int c = r.range(0, 99);
  if (c < 22) {
    static const char* const pool[] = {"H2O", "SiO2", "Ca5(PO4)3F", "C6H12O6", "Fe2O3", "NaCl", "Pb", "CaCO3", "Al2O3", "(H2O)2", "Water, Liquid", "Air, Dry (near sea level)",
                                        "HCNOF", "NaMgAlSiPS", "HCNOFKCaTi", "LiBeBNeArKrXe", "FeCoNiCuZnGaGeAsSeBr", "C22H10N2O5"};
    return pool[r.below(sizeof pool / sizeof pool[0])];
  }
  if (c < 50) return gen_formula(r, 0);
  if (c < 68) {
    int n = count_names(g_nist_names);
    if (n) return g_nist_names[r.below(n)];
    return "Water, Liquid";
  }
  if (c < 84) {
    static const char* const bad[] = {"", "h2o", "2H", "Xx2", "H2O)", "(H2O", "H 2O", "H1.2.3", "H0", "H#", "(H2O)2", "((Fe)2O3)0.5",
                                      "He0.0", "C6H12O6(", "()", "(())", "A", "Uuo", "H2O ", ".5H", "H..5", "H-2", "Ca5(PO4)3F",
                                      "SiO2", "Jj", "HeLLo", "Fe2O3Fe2O3Fe2O3Fe2O3Fe2O3Fe2O3Fe2O3Fe2O3Fe2O3Fe2O3Fe2O3Fe2O3", "H1e5",
                                      "H1000000000000000000000000000000000000", "(H)0", "(H)1.1.1", "(H2O)0.0", "O2(", ")O2(", "Not a compound",
                                      "Rf", "RfSg9", "DbBh2", "H2Rf", "(Bh)2", "Lr", "Ca(OH)0", "Ca(OH)1.2.3", "Mg((CH3)0N)2"};
    return maybe_long(r, bad[r.below(sizeof bad / sizeof bad[0])]);
  }
  if (c < 95) return maybe_long(r, mutate_string(r, r.chance(1, 2) ? gen_formula(r, 0) : std::string(g_nist_names[0] ? g_nist_names[r.below(count_names(g_nist_names))] : "Air")));
  if (c < 98) {
    std::string s;
    int n = r.range(1, 200);
    for (int i = 0; i < n; i++) s += (char)r.range(1, 255);
    return s;
  }
  *is_null = true;
  return "";
}

static void fill_args(Rng& r, const QueryDef& q, Op& o) {
  int ii = 0, dd = 0, k = 0;
  for (const char* p = q.shape; *p; ++p, ++k) {
    const char* cls = q.cls[k] ? q.cls[k] : "";
    if (*p == 'i') {
      int v;
      if (!strcmp(cls, "Z")) v = gen_Z(r);
      else if (!strcmp(cls, "shell")) v = gen_macro(r, 0, 30);
      else if (!strcmp(cls, "line")) v = r.chance(1, 8) ? r.range(0, 3) : gen_macro(r, -383, 3);
      else if (!strcmp(cls, "trans")) v = gen_macro(r, 0, 14);
      else if (!strcmp(cls, "auger_trans")) v = gen_macro(r, 0, 995);
      else v = gen_macro(r, 0, 30);
      if (ii < 4) o.i[ii++] = v;
    } else if (*p == 'd') {
      double v;
      if (!strcmp(cls, "E") || !strcmp(cls, "E0")) v = gen_E(r);
      else if (!strcmp(cls, "theta") || !strcmp(cls, "phi")) v = gen_angle(r);
      else if (!strcmp(cls, "q") || !strcmp(cls, "pz")) v = gen_q(r);
      else if (!strcmp(cls, "density")) v = gen_density(r);
      else if (cls[0] == 'P' && (cls[1] == 'K' || cls[1] == 'L' || cls[1] == 'M')) v = r.chance(4, 5) ? r.unit() * 50 : gen_q(r);   // vacancy production inputs
      else v = gen_E(r);
      if (dd < 12) o.d[dd++] = v;
    } else {
      o.s = gen_compound_arg(r, &o.snull);
    }
  }
  // now and then the energy is placed relative to one of the element's own absorption edges (looked up inside
  // the op): the edge-dependent branches of the fluorescence / jump / cascade code only switch there
  if (q.shape[0] == 'i' && strchr(q.shape, 'd') && q.cls[0] && !strcmp(q.cls[0], "Z") && r.chance(1, 10)) {
    bool hasE = false;
    for (int j = 0; q.shape[j]; j++) hasE = hasE || (q.cls[j] && (!strcmp(q.cls[j], "E") || !strcmp(q.cls[j], "E0")));
    if (hasE && o.i[0] >= 1 && o.i[0] <= 100) {
      static const double f[] = {1.0, 1.0000001, 0.9999999, 1.001, 0.999, 1.5};
      o.i[3] = 1 + r.range(0, 8);
      o.d[11] = f[r.below(6)];
    }
  }
}

const QueryDef* query_find(const char* name) {
  for (int i = 0; i < g_nqueries; i++)
    if (!strcmp(g_queries[i].name, name)) return &g_queries[i];
  return nullptr;
}

Op gen_query_op_for(Rng& r, int id, int qi) {
  Op o;
  o.id = id;
  o.kind = OK_Q;
  const QueryDef& q = g_queries[qi % g_nqueries];
  o.fn = q.name;
  fill_args(r, q, o);
  o.slot = r.chance(4, 5) ? 1 : 0;
  return o;
}

// Focused workloads: a run concentrates on one to three entry points and on one value of their macro argument,
// so that several tasks (or many ops of one history) hit the same rarely used path — e.g. the first use of a
// lazily built table for one particular group-line macro — at the same time.
void set_focus(Rng& r, GenCfg& cfg) {
  cfg.nfocus = r.chance(1, 2) ? 1 : r.range(2, 3);
  for (int j = 0; j < cfg.nfocus; j++) cfg.focus_q[j] = (int)r.below(g_nqueries);
  if (r.chance(1, 3)) {
    // the compound functions share the parser and whatever it caches: bias a third of the focused runs to them
    int cand[64], n = 0;
    for (int q = 0; q < g_nqueries && n < 64; q++) if (strchr(g_queries[q].shape, 's')) cand[n++] = q;
    for (int j = 0; j < cfg.nfocus && n; j++) cfg.focus_q[j] = cand[r.below(n)];
  }
  cfg.focus_strings.clear();
  int ns = r.range(3, 14);   // few enough to be shared between tasks, sometimes more than any small cache holds
  for (int j = 0; j < ns; j++) { bool isnull; std::string f = gen_compound_arg(r, &isnull); if (!isnull) cfg.focus_strings.push_back(f); }
  const QueryDef& q = g_queries[cfg.focus_q[0]];
  cfg.focus_macro_set = false;
  if (q.shape[0] == 'i' && q.shape[1] == 'i') {
    const char* cls = q.cls[1] ? q.cls[1] : "";
    cfg.focus_macro_set = true;
    if (!strcmp(cls, "line")) cfg.focus_macro = r.chance(1, 2) ? r.range(0, 3) : -r.range(1, 383);
    else if (!strcmp(cls, "trans")) cfg.focus_macro = r.range(0, 14);
    else if (!strcmp(cls, "auger_trans")) cfg.focus_macro = r.range(0, 995);
    else cfg.focus_macro = r.range(0, 30);
  }
}

static Op gen_focus_op(Rng& r, int id, const GenCfg& cfg) {
  Op o = gen_query_op_for(r, id, cfg.focus_q[r.below(cfg.nfocus)]);
  const QueryDef* q = query_find(o.fn.c_str());
  if (cfg.focus_macro_set && q && q->shape[0] == 'i' && q->shape[1] == 'i' && r.chance(cfg.focus_strength ? 3 : 2, 4)) o.i[1] = cfg.focus_macro;
  if (q && strchr(q->shape, 's') && !cfg.focus_strings.empty() && r.chance(7, 10)) { o.s = cfg.focus_strings[r.below(cfg.focus_strings.size())]; o.snull = false; }
  if (r.chance(3, 4) && o.i[0] > 120) o.i[0] = r.range(1, 98);
  return o;
}

Op gen_query_op(Rng& r, int id) {
  Op o;
  o.id = id;
  o.kind = OK_Q;
  const QueryDef& q = g_queries[r.below(g_nqueries)];
  o.fn = q.name;
  fill_args(r, q, o);
  o.slot = r.chance(4, 5) ? 1 : 0;
  return o;
}

static const char* const kBuiltinNamesFallback[] = {"Si", "Ge", "Diamond", "GaAs", "InSb", "LiF", "NaCl", "Graphite", "AlphaQuartz"};
std::vector<CrystalData> g_builtin_crystals;

static std::string pick_builtin_name(Rng& r) {
  if (!g_builtin_crystals.empty()) return g_builtin_crystals[r.below(g_builtin_crystals.size())].name;
  return kBuiltinNamesFallback[r.below(sizeof kBuiltinNamesFallback / sizeof kBuiltinNamesFallback[0])];
}

static std::string gen_lookup_name(Rng& r, const char* const* names, bool* is_null) {
  *is_null = false;
  int n = count_names(names);
  int c = r.range(0, 99);
  if (c < 70 && n) return names[r.below(n)];
  if (c < 85 && n) return maybe_long(r, mutate_string(r, names[r.below(n)]));
  if (c < 97) {
    static const char* const bad[] = {"", "water", "55fe", "Fe55", "Unobtainium", " ", "Water, Liquid ", "241Am "};
    return maybe_long(r, bad[r.below(sizeof bad / sizeof bad[0])]);
  }
  *is_null = true;
  return "";
}

// an op that neither consumes nor leaves a handle: usable as a purity probe and as thread workload
Op gen_self_contained_op(Rng& r, int id, bool crystal_catalogue) {
  int c = r.range(0, 99);
  if (c < 62) { Op o = gen_query_op(r, id); o.selfc = 1; return o; }
  Op o;
  o.id = id;
  o.selfc = 1;
  o.slot = r.chance(4, 5) ? 1 : 0;
  if (c < 70) { o.kind = OK_PARSE; o.s = gen_compound_arg(r, &o.snull); }
  else if (c < 75) { o.kind = OK_NIST_NAME; o.s = gen_lookup_name(r, g_nist_names, &o.snull); }
  else if (c < 79) { o.kind = OK_NIST_IDX; o.i[0] = r.chance(9, 10) ? r.range(0, 179) : r.range(-3, 185); }
  else if (c < 81) { o.kind = OK_NIST_LIST; o.i[0] = r.range(0, 1); }
  else if (c < 84) { o.kind = OK_RN_NAME; o.s = gen_lookup_name(r, g_rn_names, &o.snull); }
  else if (c < 87) { o.kind = OK_RN_IDX; o.i[0] = r.chance(9, 10) ? r.range(0, 9) : r.range(-3, 14); }
  else if (c < 88) { o.kind = OK_RN_LIST; o.i[0] = r.range(0, 1); }
  else if (c < 91) { o.kind = OK_A2S; o.i[0] = gen_Z(r); }
  else if (c < 93) {
    o.kind = OK_S2A;
    int k = r.range(0, 9);
    if (k < 7) o.s = kSymbols[r.below(kNSymbols)];
    else if (k < 9) o.s = maybe_long(r, mutate_string(r, kSymbols[r.below(kNSymbols)]));
    else o.snull = true;
  } else if (c < 95) {
    o.kind = OK_ATOMFAC;
    o.i[0] = gen_Z(r); o.d[0] = gen_E(r); o.d[1] = gen_q(r); o.d[2] = r.chance(4, 5) ? 0.5 + r.unit() : gen_density(r);
    o.i[1] = r.chance(3, 4) ? 7 : r.range(0, 15);
  } else if (c < 98) {
    // crystal maths on a shipped crystal (fetched by name inside the op) or on a caller-built one
    static const char* const fns[] = {"Bragg_angle", "Q_scattering_amplitude", "Crystal_F_H_StructureFactor",
                                      "Crystal_F_H_StructureFactor_Partial", "Crystal_UnitCellVolume", "Crystal_dSpacing"};
    o.kind = OK_CR_MATH;
    o.fn = fns[r.chance(1, 2) ? 2 + (int)r.below(2) : (int)r.below(6)];
    if (crystal_catalogue && r.chance(2, 3)) o.s = pick_builtin_name(r);
    else { std::vector<std::string> pool{"Qz", "Xa"}; o.cs = gen_crystal_spec(r, pool); o.cs.cellclass %= 2; if (!o.cs.natoms) o.cs.natoms = 2; if (o.cs.natoms > 12) o.cs.natoms = 12; }
    static const double es[] = {8.0, 12.0, 17.4, 8.047};
    o.d[0] = r.chance(3, 4) ? es[r.below(4)] : gen_E(r);
    for (int k = 0; k < 3; k++) o.i[k] = r.range(-3, 3);
    if (r.chance(1, 2)) { static const int hk[4][3] = {{1, 1, 1}, {2, 2, 0}, {1, 0, 0}, {3, 1, 1}}; int w = (int)r.below(4); for (int k = 0; k < 3; k++) o.i[k] = hk[w][k]; }
    if (r.chance(1, 12)) o.i[0] = o.i[1] = o.i[2] = 0;
    static const double db[] = {1.0, 0.85, 0.5};
    o.d[1] = r.chance(5, 6) ? db[r.below(3)] : gen_density(r);
    o.d[2] = r.chance(3, 4) ? 1.0 : 0.5;
    for (int k = 3; k < 6; k++) o.d[k] = r.chance(9, 10) ? (r.chance(2, 3) ? 2 : 0) : r.range(-1, 3);
  } else if (crystal_catalogue) {
    if (r.chance(1, 3)) { o.kind = OK_CA_LIST; o.h[0] = -2; o.i[0] = r.range(0, 1); }
    else {
      o.kind = OK_CA_GET; o.h[0] = -2;
      int k = r.range(0, 9);
      if (k < 7) o.s = pick_builtin_name(r);
      else if (k < 9) o.s = maybe_long(r, mutate_string(r, pick_builtin_name(r)));
      else o.snull = true;
    }
  } else {
    Op q = gen_query_op(r, id); q.selfc = 1; return q;
  }
  return o;
}

// ------------------------------------------------------------------ crystals
static std::string gen_name(Rng& r, int maxlen) {
  static const char cs[] = "ABCDEFGHIJKLMNOPQRSTUVWXYZabcdefghijklmnopqrstuvwxyz0123456789_-+.";
  // a fifth of the names use the whole range a C string and a whitespace-delimited file token can hold: ASCII
  // punctuation and bytes above 127 (UTF-8 letters as in "\xce\xb1-Quartz", "\xc3\x85kermanite"), also as first byte -
  // orderings that treat char as signed, fold case or stop at punctuation only show on such names
  static const char punct[] = "!$%&'()*,/:;<=>?@[]^`{|}~\"\\  ";   // blanks too: fine for AddCrystal ("Diamond copy 12"), not a file token
  static const char* const utf8[] = {"\xce\xb1", "\xce\xb2", "\xce\xb3", "\xc3\x85", "\xc3\x96", "\xc3\xa9", "\xe2\x82\x82", "\xff", "\x80"};
  bool rich = r.chance(1, 5);
  int n = r.chance(9, 10) ? r.range(1, std::min(maxlen, 12)) : r.range(1, maxlen);
  std::string s;
  while ((int)s.size() < n) {
    int k = rich ? (int)r.below(10) : 9;
    if (k < 3) { const char* u = utf8[r.below(sizeof utf8 / sizeof utf8[0])]; if ((int)(s.size() + strlen(u)) <= n) s += u; else s += cs[r.below(sizeof cs - 1)]; }
    else if (k < 5) s += punct[r.below(sizeof punct - 1)];
    else s += cs[r.below(sizeof cs - 1)];
  }
  if (s[0] == '#') s[0] = 'X';
  return s;
}

CrystalSpec gen_crystal_spec(Rng& r, const std::vector<std::string>& pool) {
  CrystalSpec c;
  int k = r.range(0, 99);
  if (k < 60 && !pool.empty()) c.name = pool[r.below(pool.size())];
  else if (k < 70) c.name = pick_builtin_name(r);
  else c.name = gen_name(r, 20);
  if (r.chance(1, 60)) c.name = maybe_long(r, maybe_long(r, c.name));
  if (!pool.empty() && r.chance(1, 12)) {
    // families of names that agree in a long prefix (or where one is a prefix of the other): a bounded or
    // otherwise weakened comparison in lookup / duplicate detection only shows on such pairs
    static const int cut[] = {8, 15, 16, 19, 20, 21, 31, 32, 33};
    std::string base = pool[r.below(pool.size())] + "_sample_of_a_long_crystal_name_";
    base.resize((size_t)cut[r.below(9)], '_');
    int v = r.range(0, 3);
    c.name = v == 0 ? base : base + (char)('0' + r.range(0, 3)) + (v == 2 ? "b" : "");
    if (r.chance(1, 4)) for (auto& ch : c.name) if (ch >= 'a' && ch <= 'z' && r.chance(1, 3)) ch = (char)(ch - 32);
  }
  c.cseed = r.next() & 0xffffffffULL;
  int a = r.range(0, 99);
  c.natoms = a < 10 ? 0 : a < 80 ? r.range(1, 8) : a < 95 ? r.range(9, 40) : r.range(41, 64);
  int cc = r.range(0, 99);
  c.cellclass = cc < 50 ? 0 : cc < 85 ? 1 : cc < 93 ? 2 : 3;
  c.zclass = 0;
  return c;
}

CrystalData expand_crystal(const CrystalSpec& s) {
  CrystalData d;
  d.name = s.name;
  d.name_null = s.name_null;
  Rng r(s.cseed * 0x9e3779b97f4a7c15ULL + 77);
  // every number is an integer over a power of ten: the correctly rounded quotient is exactly what strtod/%lf
  // returns for the short decimal text the file renderer prints, so model and library agree bit for bit
  auto len = [&]() { return (double)(2000 + (long)r.below(18000)) / 1000.0; };
  auto coord = [&]() { return (double)(long)r.below(10000) / 10000.0; };
  switch (s.cellclass) {
    case 0: {
      double a = len();
      d.cell[0] = d.cell[1] = d.cell[2] = a;
      d.cell[3] = d.cell[4] = d.cell[5] = 90.0;
      if (r.chance(1, 3)) { d.cell[2] = len(); d.cell[5] = 120.0; }
      break;
    }
    case 1: {
      for (int tries = 0;; tries++) {
        d.cell[0] = len(); d.cell[1] = len(); d.cell[2] = len();
        for (int k = 3; k < 6; k++) d.cell[k] = (double)(600 + (long)r.below(600)) / 10.0;
        double ca = cos(d.cell[3] * M_PI / 180), cb = cos(d.cell[4] * M_PI / 180), cg = cos(d.cell[5] * M_PI / 180);
        double rad = 1 - ca * ca - cb * cb - cg * cg + 2 * ca * cb * cg;
        if (rad > 0.01 || tries > 50) {
          if (rad <= 0.01) { d.cell[3] = d.cell[4] = d.cell[5] = 90.0; }
          break;
        }
      }
      break;
    }
    case 2:
      d.cell[0] = len(); d.cell[1] = len(); d.cell[2] = len();
      d.cell[3] = 10.0; d.cell[4] = 170.0; d.cell[5] = 20.0 + (double)(long)r.below(100);  // radicand <= 0: NaN volume
      if (r.chance(1, 3)) { d.cell[3] = 0; d.cell[4] = 0; d.cell[5] = 0; }
      break;
    default:
      d.cell[0] = r.chance(1, 2) ? 0.0 : 1e150; d.cell[1] = -3.5; d.cell[2] = 1e-200;
      d.cell[3] = 360.0 + 45; d.cell[4] = -90.0; d.cell[5] = 1e6;
      break;
  }
  for (int i = 0; i < s.natoms; i++) {
    CAtom a;
    if (s.zclass == 1 && r.chance(1, 3)) {
      static const int odd[] = {0, -1, 120, 121, 130, 1000, -50, 99, 108};
      a.Z = odd[r.below(sizeof odd / sizeof odd[0])];
    } else {
      a.Z = r.chance(3, 4) ? r.range(1, 40) : r.range(1, 98);
    }
    a.frac = r.chance(3, 4) ? 1.0 : (double)(long)r.below(1000) / 1000.0;
    a.x = coord(); a.y = coord(); a.z = coord();
    d.atoms.push_back(a);
  }
  return d;
}

double CrystalData::model_volume() const {
  const double dr = M_PI / 180.0;
  double ca = cos(cell[3] * dr), cb = cos(cell[4] * dr), cg = cos(cell[5] * dr);
  return cell[0] * cell[1] * cell[2] * sqrt(1 - ca * ca - cb * cb - cg * cg + 2 * ca * cb * cg);
}
bool CrystalData::volume_comparable() const {
  const double dr = M_PI / 180.0;
  double ca = cos(cell[3] * dr), cb = cos(cell[4] * dr), cg = cos(cell[5] * dr);
  double rad = 1 - ca * ca - cb * cb - cg * cg + 2 * ca * cb * cg;
  double v = model_volume();
  return rad > 0.009 && isfinite(v) && v > 0 && v < 1e100;
}

bool CrystalData::plain() const {
  if (name_null || name.empty() || name.size() > 20) return false;
  for (unsigned char ch : name)
    if (!((ch >= 'A' && ch <= 'Z') || (ch >= 'a' && ch <= 'z') || (ch >= '0' && ch <= '9') || ch == '_' || ch == '-' || ch == '+' || ch == '.' || ch == ' ')) return false;
  if (name.front() == ' ' || name.back() == ' ') return false;   // inner blanks are ordinary (the repository's own test adds "Diamond copy 12")
  if (atoms.empty() || !volume_comparable()) return false;
  for (int k = 0; k < 3; k++) if (!(cell[k] > 0.1 && cell[k] < 1000)) return false;
  for (int k = 3; k < 6; k++) if (!(cell[k] > 5 && cell[k] < 175)) return false;
  for (auto& a : atoms)
    if (a.Z < 1 || a.Z > 98 || !(a.frac >= 0 && a.frac <= 1) || !(a.x >= 0 && a.x <= 1) || !(a.y >= 0 && a.y <= 1) || !(a.z >= 0 && a.z <= 1)) return false;
  return true;
}

static thread_local int t_long_numbers_left = 0;   // per line: how many numbers may still be spelled with 25+ characters
static void fmt_num(std::string& out, double v, Rng* style = nullptr) {
  // short decimal text (lines of the dialect must stay below 100 characters); a file is bytes, so the
  // decimal point is '.' whatever the process locale is
  char b[64];
  snprintf(b, sizeof b, "%.12g", v);
  for (char* p = b; *p; ++p) if (*p == ',') *p = '.';
  std::string t = b;
  if (style && t.find_first_of("eEn") == std::string::npos) {
    // other spellings of exactly the same decimal value (strtod / %lf give the same double for all of them)
    switch (style->below(9)) {
      case 8:   // many digits: longer than any field width a reader might think sufficient, the line stays below 100 characters
        if (t_long_numbers_left > 0) {
          t_long_numbers_left--;
          if (t.find('.') == std::string::npos) t += ".";
          size_t want = 25 + style->below(8);
          while (t.size() < want) t += "0";
        }
        break;
      case 0: if (v >= 0 && t[0] != '-') t = "+" + t; break;
      case 1: t += "e0"; break;
      case 2: t += "E+00"; break;
      case 3: if (t.size() > 2 && t[0] == '0' && t[1] == '.') t = t.substr(1); break;
      case 4: if (t.find('.') == std::string::npos) t += "."; t += "00"; break;
      case 5: if (t[0] != '-') t = "0" + t; break;
      case 6: {  // shift the decimal point by one and compensate in the exponent
        size_t dot = t.find('.');
        if (dot == std::string::npos) { t += "0e-1"; break; }
        if (dot + 1 < t.size()) { std::swap(t[dot], t[dot + 1]); t += "e-1"; if (t[t.find('.') + 1] == 'e') t.insert(t.find('.') + 1, "0"); }
        break;
      }
      default: break;
    }
  }
  out += t;
}

// Render a crystal file in the dialect of data/Crystals.dat.  *wellformed is set when the file follows the
// dialect exactly (so a fault-free load must succeed and yield exactly `contents`).
std::string render_crystal_file(const FileSpec& fs, bool* wellformed, std::vector<CrystalData>* contents, long* data_end, bool* layout_only) {
  if (data_end) *data_end = 0;
  if (layout_only) *layout_only = false;
  bool layout = false;   // the text deviates from the shipped dialect only in ways that leave its content (names, cells, atoms) intact
  Rng r(fs.mseed * 31 + 5);
  Rng rstyle(fs.mseed * 131 + 7);
  Rng* style = fs.mut == FM_NUM_SYNTAX ? &rstyle : nullptr;
  if (style) layout = true;
  std::string t;
  bool wf = true;
  if (contents) contents->clear();
  if (fs.mut == FM_EMPTY) { *wellformed = false; return ""; }
  if (fs.mut == FM_RANDOM_BYTES) {
    int n = r.range(1, 3000);
    for (int i = 0; i < n; i++) t += (char)r.range(0, 255);
    if (r.chance(1, 2)) t.insert(r.below(t.size()), "\n#S 1 Zz\n#UCELL 1 1 1 90 90 90\n#L x\n1 1 0 0 0\n");
    *wellformed = false;
    return t;
  }
  const char* nl = fs.mut == FM_CRLF ? "\r\n" : "\n";
  t += "#F generated.dat"; t += nl;
  t += "#UT generated crystal file"; t += nl; t += nl;
  size_t victim = fs.crystals.empty() ? 0 : r.below(fs.crystals.size());
  for (size_t ci = 0; ci < fs.crystals.size(); ci++) {
    CrystalData d = expand_crystal(fs.crystals[ci]);
    bool hit = ci == victim;
    std::string nm = d.name;
    if (hit && fs.mut == FM_LONG_NAME) { nm = std::string(25 + r.below(60), 'N') + nm; wf = false; }
    if (nm.empty() || nm.size() > 20 || nm.find_first_of(" \t\r\n\f\v") != std::string::npos) wf = false;
    for (unsigned char ch : nm) if (ch < 33 || ch == 127) wf = false;   // any non-blank byte is a legal token character, also above 127
    d.name = nm;
    char b[256];
    if (hit && fs.mut == FM_BAD_S) { t += "#S notanumber"; t += nl; wf = false; }
    else { snprintf(b, sizeof b, "#S %d %s", 1 + (int)ci, nm.c_str()); t += b; t += nl; }
    t += "#UCOMMENT generated"; t += nl;
    if (!(hit && fs.mut == FM_NO_UCELL)) {
      std::string u = "#UCELL ";
      if (hit && fs.mut == FM_BAD_UCELL) { u += "4.2 abc 3"; wf = false; }
      else { t_long_numbers_left = 1; for (int k = 0; k < 6; k++) { fmt_num(u, d.cell[k], style); u += k < 5 ? " " : ""; } }
      t += u; t += nl;
      if (hit && fs.mut == FM_DUP_UCELL) { t += u; t += nl; wf = false; }
    } else wf = false;
    if (hit && fs.mut == FM_LONG_LINE) { t += "#UREF " + std::string(100 + r.below(300), 'r'); t += nl; /* dialect allows free #U lines; >99 chars splits in the reader */ layout = true; }
    t += "#UTEMP 300"; t += nl;
    snprintf(b, sizeof b, "#N  5"); t += b; t += nl;
    if (!(hit && fs.mut == FM_NO_L)) { t += "#L  AtomicNumber  Fraction  X  Y  Z"; t += nl; } else wf = false;
    size_t badrow = d.atoms.empty() ? 0 : r.below(d.atoms.size());
    if (hit && fs.mut == FM_NO_ATOMS) { d.atoms.clear(); wf = false; }
    if (d.atoms.empty()) wf = false;   // a crystal without atom rows is outside the dialect: accept-or-reject class
    for (size_t ai = 0; ai < d.atoms.size(); ai++) {
      const CAtom& a = d.atoms[ai];
      std::string row;
      bool bad = hit && ai == badrow;
      if (bad && fs.mut == FM_SHORT_ATOM) { snprintf(b, sizeof b, "%d 1.0 0.5", a.Z); row = b; wf = false; }
      else if (bad && fs.mut == FM_NONNUM_ATOM) { snprintf(b, sizeof b, "%d one 0.5 0.5 0.5", a.Z); row = b; wf = false; }
      else {
        snprintf(b, sizeof b, "%d ", a.Z); row = b;
        t_long_numbers_left = 1;
        fmt_num(row, a.frac, style); row += " "; fmt_num(row, a.x, style); row += "  "; fmt_num(row, a.y, style); row += "  "; fmt_num(row, a.z, style);
        if (bad && fs.mut == FM_EXTRA_COLS) { row += " 0.25 extra"; wf = false; }
      }
      t += row; t += nl;
    }
    if (contents) contents->push_back(d);
    if (data_end) *data_end = (long)t.size();
    if (ci + 1 < fs.crystals.size() && r.chance(1, 6)) { t += nl; layout = true; }   // the shipped file has no blank line between the last atom row and the next "#S"
  }
  if (fs.mut == FM_NO_FINAL_NL) {
    // a text file whose last line has no line terminator: either the "#EOF" marker or the last atom row
    if (fs.mseed & 1) t += "#EOF";
    else if (t.size() >= strlen(nl)) t.resize(t.size() - strlen(nl));
    layout = true;
  } else if (fs.mut != FM_NO_EOF) { t += "#EOF"; t += nl; } else layout = true;
  if (fs.mut == FM_CRLF) layout = true;
  if (fs.mut == FM_TRUNC_TEXT && !t.empty()) { t.resize(r.below(t.size())); wf = false; }
  // duplicate names inside one file are outside "well-formed"
  for (size_t i = 0; i < fs.crystals.size(); i++)
    for (size_t j = i + 1; j < fs.crystals.size(); j++)
      if (fs.crystals[i].name == fs.crystals[j].name) wf = false;
  if (fs.crystals.empty()) wf = wf && true;  // a file with no crystals at all is well-formed and adds nothing
  *wellformed = wf && !layout;
  if (layout_only) *layout_only = wf && layout;
  return t;
}

FileSpec gen_file_spec(Rng& r, const std::vector<std::string>& pool, bool faults) {
  FileSpec f;
  int n = r.range(0, 99);
  int nc = n < 8 ? 0 : n < 60 ? r.range(1, 3) : n < 92 ? r.range(4, 8) : n < 98 ? r.range(9, 12) : r.range(13, 35);
  bool big = nc > 12;   // several growth steps inside one load: distinct names, few atoms
  for (int i = 0; i < nc; i++) {
    CrystalSpec c = gen_crystal_spec(r, pool);
    if (big) { char b[16]; snprintf(b, sizeof b, "%02d", i); c.name = gen_name(r, 14) + "_" + b; if (c.natoms > 4) c.natoms = r.range(1, 4); }
    if (c.natoms == 0 && r.chance(3, 4)) c.natoms = r.range(1, 6);
    if (c.cellclass == 3) c.cellclass = 1;
    f.crystals.push_back(c);
  }
  f.mseed = r.next() & 0xffffff;
  int m = r.range(0, 99);
  f.mut = m < 55 ? FM_NONE : 1 + (int)r.below(FM_N - 1);
  if (faults) {
    int k = r.range(0, 99);
    if (k < 12) { static const int en[] = {2 /*ENOENT*/, 13 /*EACCES*/, 24 /*EMFILE*/, 21 /*EISDIR*/}; f.open_errno = en[r.below(4)]; }
    else if (k < 32) f.eio_at = r.chance(1, 5) ? 0 : (long)r.below(1 + 120 * (nc + 1));
    else if (k < 52) f.trunc_at = (long)r.below(1 + 120 * (nc + 1));
    else if (k < 60) f.unseekable = true;
    if (r.chance(1, 2)) { static const int ch[] = {1, 2, 3, 7, 16, 64, 100, 101, 4095}; f.chunk = ch[r.below(9)]; }
    if (r.chance(1, 40)) f.name_null = true;
  } else {
    if (r.chance(1, 3)) { static const int ch[] = {1, 2, 3, 7, 16, 64, 100, 101, 4095}; f.chunk = ch[r.below(9)]; }
  }
  return f;
}

// ------------------------------------------------------------------ histories
struct GenState {
  struct H { int id; int type; bool shared; };
  std::vector<H> hs;
  std::vector<std::string> pool;
  int pick(Rng& r, int type, bool allow_shared) {
    int cand[64], n = 0;
    for (auto& h : hs)
      if (h.type == type && (allow_shared || !h.shared) && n < 64) cand[n++] = h.id;
    return n ? cand[r.below(n)] : -1;
  }
  void drop(int id) {
    for (size_t i = 0; i < hs.size(); i++)
      if (hs[i].id == id) { hs.erase(hs.begin() + i); return; }
  }
};

static Op gen_crystal_math(Rng& r, GenState& st, int id, const GenCfg& cfg) {
  Op o;
  o.id = id;
  o.kind = OK_CR_MATH;
  static const char* const fns[] = {"Bragg_angle", "Q_scattering_amplitude", "Crystal_F_H_StructureFactor",
                                    "Crystal_F_H_StructureFactor_Partial", "Crystal_UnitCellVolume", "Crystal_dSpacing",
                                    "Crystal_F_H_StructureFactor2", "Crystal_F_H_StructureFactor_Partial2"};
  o.fn = fns[r.below(8)];
  o.h[0] = r.chance(2, 3) ? st.pick(r, HT_CRYSTAL, true) : -1;
  if (o.h[0] == -1) {
    if (r.chance(1, 12)) o.i[3] = 1;  // NULL crystal
    else {
      o.cs = gen_crystal_spec(r, st.pool);
      if (!cfg.no_oob_crystal_Z && r.chance(1, 6)) o.cs.zclass = 1;
    }
  }
  { static const double es[] = {8.0, 12.0, 17.4, 8.047}; o.d[0] = r.chance(1, 2) ? es[r.below(4)] : r.chance(3, 5) ? 1.0 + r.unit() * 40 : gen_E(r); }
  if (o.h[0] == -1 && !o.i[3] && r.chance(1, 3)) { o.s = pick_builtin_name(r); }
  for (int k = 0; k < 3; k++) o.i[k] = r.chance(9, 10) ? r.range(-4, 4) : r.range(-1000, 1000);
  if (r.chance(2, 5)) { static const int hk[4][3] = {{1, 1, 1}, {2, 2, 0}, {1, 0, 0}, {3, 1, 1}}; int w = (int)r.below(4); for (int k = 0; k < 3; k++) o.i[k] = hk[w][k]; }
  if (r.chance(1, 15)) o.i[0] = o.i[1] = o.i[2] = 0;
  { static const double db[] = {1.0, 0.85, 0.5}; o.d[1] = r.chance(1, 2) ? db[r.below(3)] : r.chance(4, 5) ? 0.5 + r.unit() * 0.5 : gen_density(r); }  // debye
  o.d[2] = r.chance(4, 5) ? 1.0 : gen_angle(r);                     // rel angle
  for (int k = 3; k < 6; k++) o.d[k] = r.chance(9, 10) ? (r.chance(1, 2) ? 2 : 0) : r.range(-1, 3);
  if (r.chance(1, 3)) o.d[3] = 1;
  o.slot = r.chance(4, 5) ? 1 : 0;
  return o;
}

void gen_history(Rng& r, const GenCfg& cfg, std::vector<Op>& out, int& next_id, int /*first_shared_array*/) {
  GenState st;
  // handles that already exist (shared setup objects) are passed in through `out` as a prefix convention:
  // the caller appends them via st later; here we just scan `out` for setup ops
  for (auto& o : out) {
    if (o.kind == OK_CA_INIT) st.hs.push_back({o.id, HT_ARRAY, true});
    if (o.kind == OK_CR_COPY || o.kind == OK_CA_GET) st.hs.push_back({o.id, HT_CRYSTAL, true});
    if (o.kind == OK_PARSE) st.hs.push_back({o.id, HT_COMPOUND, true});
  }
  std::vector<Op> ops;
  int npool = r.range(2, 10);
  for (int i = 0; i < npool; i++) st.pool.push_back(gen_name(r, 20));
  int n = r.range(cfg.min_ops, cfg.max_ops);
  int wq = cfg.w_query, wa = cfg.w_alloc, wc = cfg.w_crystal;
  // swarm: sometimes drop a whole category
  if (!cfg.crystal_focus && r.chance(1, 6)) wq = 0;
  if (!cfg.crystal_focus && r.chance(1, 6)) wc = 0;
  if (wq + wa + wc == 0) wa = 1;
  bool mod_builtin = cfg.allow_builtin_mod && !cfg.threadsafe_only && r.chance(1, 4);
  int n_arrays = 0;
  Op pending;
  bool have_pending = false;
  for (int k = 0; k < n; k++) {
    int id = next_id++;
    Op o;
    o.id = id;
    int c = (int)r.below(wq + wa + wc);
    if (r.chance(1, 60)) { o.kind = OK_INIT; ops.push_back(o); continue; }
    if (r.chance(1, 80)) {
      o.kind = OK_DEPRECATED;
      static const char* const d[] = {"SetHardExit", "SetExitStatus", "GetExitStatus", "SetErrorMessages", "GetErrorMessages"};
      o.fn = d[r.below(5)];
      o.i[0] = r.range(0, 1);
      ops.push_back(o);
      continue;
    }
    if (cfg.nfocus > 0 && r.chance(cfg.focus_strength ? 4 : 3, 5)) {
      o = gen_focus_op(r, id, cfg);
    } else if (c < wq) {
      o = gen_query_op(r, id);
      if (r.chance(1, 6)) o.keep = 1;
    } else if (c < wq + wa) {
      int a = r.range(0, 99);
      o.slot = r.chance(4, 5) ? 1 : 0;
      if (r.chance(1, 6)) o.keep = o.slot;
      if (a < 22) { o.kind = OK_PARSE; o.s = gen_compound_arg(r, &o.snull); if (o.s.find('(') != std::string::npos) {} st.hs.push_back({id, HT_COMPOUND, false}); }
      else if (a < 27) {
        o.kind = OK_ADDCD; o.h[0] = st.pick(r, HT_COMPOUND, true); o.h[1] = st.pick(r, HT_COMPOUND, true);
        o.d[0] = r.unit(); o.d[1] = r.unit();
        if (r.chance(1, 3)) {
          // two fresh many-element, (nearly) disjoint compounds: the union grows several times
          static const char* const big[] = {"HCNOF", "NaMgAlSiPS", "HCNOFKCaTi", "LiBeBNeArKrXe", "FeCoNiCuZnGaGeAsSeBr", "KCaScTiVCrMn", "RbSrYZrNbMoTcRuRhPd"};
          for (int side = 0; side < 2; side++) {
            Op pa; pa.id = next_id++; pa.kind = OK_PARSE; pa.s = big[r.below(7)]; pa.slot = 1;
            ops.push_back(pa);
            st.hs.push_back({pa.id, HT_COMPOUND, false});
            o.h[side] = pa.id;
          }
        }
        if (o.h[0] < 0 || o.h[1] < 0) { o.kind = OK_PARSE; o.s = gen_formula(r, 0); }
        st.hs.push_back({id, HT_COMPOUND, false});
      }
      else if (a < 34) { o.kind = OK_NIST_NAME; o.s = gen_lookup_name(r, g_nist_names, &o.snull); st.hs.push_back({id, HT_NIST, false}); }
      else if (a < 39) { o.kind = OK_NIST_IDX; o.i[0] = r.chance(9, 10) ? r.range(0, 179) : r.range(-3, 185); st.hs.push_back({id, HT_NIST, false}); }
      else if (a < 42) { o.kind = OK_NIST_LIST; o.i[0] = r.range(0, 1); st.hs.push_back({id, HT_STRLIST, false}); }
      else if (a < 48) { o.kind = OK_RN_NAME; o.s = gen_lookup_name(r, g_rn_names, &o.snull); st.hs.push_back({id, HT_RN, false}); }
      else if (a < 52) { o.kind = OK_RN_IDX; o.i[0] = r.chance(9, 10) ? r.range(0, 9) : r.range(-3, 14); st.hs.push_back({id, HT_RN, false}); }
      else if (a < 54) { o.kind = OK_RN_LIST; o.i[0] = r.range(0, 1); st.hs.push_back({id, HT_STRLIST, false}); }
      else if (a < 57) { o.kind = OK_A2S; o.i[0] = gen_Z(r); st.hs.push_back({id, HT_STRING, false}); }
      else if (a < 59) {
        // the small exported helpers (complex arithmetic, allocation wrappers, the variadic error constructor)
        static const char* const fns[] = {"c_abs", "c_mul", "xrl_malloc", "xrl_strdup", "xrl_strndup", "xrl_error_new", "release_nulls"};
        o.kind = OK_MISC; o.fn = fns[r.below(7)]; o.selfc = 1;
        for (int k = 0; k < 4; k++) o.d[k] = r.chance(4, 5) ? (r.unit() - 0.5) * 200 : gen_E(r);
        o.i[0] = r.chance(9, 10) ? r.range(0, 300) : r.range(0, 70000);
        bool isnull; o.s = maybe_long(r, gen_compound_arg(r, &isnull));
      }
      else if (a < 63) {
        o.kind = OK_S2A;
        int q = r.range(0, 9);
        if (q < 7) o.s = kSymbols[r.below(kNSymbols)]; else if (q < 9) o.s = mutate_string(r, kSymbols[r.below(kNSymbols)]); else o.snull = true;
      }
      else if (a < 75) {
        // error object handling
        int e = st.pick(r, HT_ERROR, false);
        if (e < 0 && r.chance(1, 3)) {
          o.kind = OK_ERR_NEW; o.i[0] = r.range(0, 5); o.keep = 0;
          static const char* const msgs[] = {"Z out of range", "", "100% literal %s %d %n", "x"};
          o.s = r.chance(1, 6) ? std::string(r.range(100, 3000), 'm') : std::string(msgs[r.below(4)]);
          st.hs.push_back({id, HT_ERROR, false});
        } else if (e < 0) { o = gen_query_op(r, id); o.keep = 1; o.slot = 1; if (o.fn.find("_CP") == std::string::npos) o.i[0] = -1; st.hs.push_back({id, HT_ERROR, false}); }
        else {
          int q = r.range(0, 9);
          o.h[0] = e; o.keep = 0;
          if (q < 4) { o.kind = OK_ERR_COPY; st.hs.push_back({id, HT_ERROR, false}); }
          else if (q < 6) { o.kind = OK_ERR_MATCH; o.i[0] = r.range(-1, 6); }
          else if (q < 9) { o.kind = OK_ERR_PROP; o.i[0] = r.chance(1, 4) ? 1 : 0; st.drop(e); if (!o.i[0]) st.hs.push_back({id, HT_ERROR, false}); }
          else { o.kind = OK_ERR_CLEAR; st.drop(e); }
        }
      }
      else {
        // release something
        if (st.hs.empty()) { o = gen_query_op(r, id); }
        else {
          std::vector<int> own;
          for (auto& h : st.hs) if (!h.shared) own.push_back(h.id);
          if (own.empty()) o = gen_query_op(r, id);
          else { o.kind = OK_FREE; o.h[0] = own[r.below(own.size())]; o.keep = 0; for (auto& h : st.hs) if (h.id == o.h[0] && h.type == HT_ARRAY) n_arrays--; st.drop(o.h[0]); }
        }
      }
      if (o.kind == OK_Q && o.keep) st.hs.push_back({id, HT_ERROR, false});
    } else {
      int a = r.range(0, 99);
      o.slot = r.chance(4, 5) ? 1 : 0;
      if (r.chance(1, 8)) o.keep = o.slot;
      int arr = st.pick(r, HT_ARRAY, false);
      bool use_builtin = mod_builtin && r.chance(1, 5);
      if (arr < 0 || (n_arrays < 3 && a < 8)) {
        o.kind = OK_CA_INIT;
        int q = r.range(0, 99);
        o.i[0] = q < 8 ? 0 : q < 70 ? r.range(1, 4) : q < 90 ? r.range(5, 12) : q < 94 ? r.range(-3, -1) : q < 97 ? r.range(13, 40) : 0;
        if (q >= 97) {
          // "any integers": counts whose byte size no longer fits 32 bits (sizeof(Crystal_Struct) is 80), type limits
          static const int big[] = {0x7fffffff, 0x7fffffff / 80, 0x7fffffff / 80 + 1, 53687091, 53687092, 1 << 26, 1 << 28, 1 << 29, 1 << 30, 65536,
                                    (int)0x80000000, 0x7fffffff - 9};
          o.i[0] = big[r.below(sizeof big / sizeof big[0])];
        }
        if (o.i[0] >= 0) { st.hs.push_back({id, HT_ARRAY, false}); n_arrays++; }
      } else if (a < 40) {
        o.kind = OK_CA_ADD; o.h[0] = use_builtin ? -2 : arr;
        if (r.chance(1, 25)) o.i[0] = 1;  // NULL crystal
        else o.cs = gen_crystal_spec(r, st.pool);
      } else if (a < 55) {
        o.kind = OK_CA_READ; o.h[0] = use_builtin ? -2 : arr;
        o.fs = gen_file_spec(r, st.pool, cfg.file_faults);
      } else if (a < 70) {
        o.kind = OK_CA_GET;
        o.h[0] = r.chance(1, 4) ? -2 : st.pick(r, HT_ARRAY, true);
        if (o.h[0] == -1) o.h[0] = -2;
        int q = r.range(0, 9);
        if (q < 5 && !st.pool.empty()) {
          o.s = st.pool[r.below(st.pool.size())];
          if (r.chance(1, 6)) {
            static const int cut[] = {8, 15, 16, 19, 20, 21, 31, 32, 33};
            std::string base = o.s + "_sample_of_a_long_crystal_name_";
            base.resize((size_t)cut[r.below(9)], '_');
            o.s = r.chance(1, 3) ? base : base + (char)('0' + r.range(0, 3));
          }
        }
        else if (q < 8) o.s = pick_builtin_name(r);
        else if (q < 9) o.s = maybe_long(r, gen_name(r, 30));
        else o.snull = true;
        if (r.chance(1, 40)) o.s = maybe_long(r, maybe_long(r, o.s));
        st.hs.push_back({id, HT_CRYSTAL, false});
      } else if (a < 76) {
        o.kind = OK_CA_LIST; o.h[0] = r.chance(1, 4) ? -2 : st.pick(r, HT_ARRAY, true); if (o.h[0] == -1) o.h[0] = -2;
        o.i[0] = r.range(0, 1);
        st.hs.push_back({id, HT_STRLIST, false});
      } else if (a < 82) {
        o.kind = OK_CR_COPY; o.h[0] = st.pick(r, HT_CRYSTAL, true);
        if (o.h[0] < 0) { if (r.chance(1, 10)) o.i[0] = 1; else o.cs = gen_crystal_spec(r, st.pool); }
        st.hs.push_back({id, HT_CRYSTAL, false});
      } else if (a < 86) {
        o.kind = OK_CR_MUT; o.h[0] = st.pick(r, HT_CRYSTAL, false); o.i[0] = r.range(0, 3);
        if (o.h[0] < 0) o = gen_crystal_math(r, st, id, cfg);
      } else if (a < 96) {
        o = gen_crystal_math(r, st, id, cfg);
      } else if (a < 98 || cfg.threadsafe_only) {
        o.kind = OK_ATOMFAC; o.i[0] = gen_Z(r); o.d[0] = gen_E(r); o.d[1] = gen_q(r); o.d[2] = r.chance(4, 5) ? 0.5 + r.unit() : gen_density(r);
        o.i[1] = r.chance(3, 4) ? 7 : r.range(0, 15);
      } else {
        o.kind = OK_CA_FILL; o.h[0] = use_builtin ? -2 : arr; o.i[0] = r.chance(1, 2) ? r.range(8, 25) : r.range(460, 500);
        if (o.h[0] != -2 && o.i[0] > 100) o.i[0] = r.range(8, 40);
        o.cs = gen_crystal_spec(r, st.pool);
        o.cs.natoms = r.range(1, 3);
      }
      if (o.keep && o.slot) {
        // an op that fails leaves an error handle under its id instead of an object
      }
    }
    if (cfg.alloc_faults && r.chance(1, 5)) o.fail = r.chance(2, 3) ? r.range(1, 4) : r.range(5, 30);
    ops.push_back(o);
    // echo: the very same call again, at once (A, A) or after the next op (A, B, A).  State that is committed before a
    // call has validated its arguments, or a one-entry memo, shows exactly when a call is repeated -- above all when the
    // first one failed -- and independent draws almost never repeat a whole argument tuple.
    if (have_pending) { pending.id = next_id++; ops.push_back(pending); have_pending = false; }
    bool echoable = !o.keep && !o.fail && (o.kind == OK_Q || o.kind == OK_S2A || o.kind == OK_ATOMFAC || (o.selfc && o.kind != OK_CA_READ));
    if (echoable && r.chance(1, 8)) {
      if (r.chance(3, 5)) { Op e = o; e.id = next_id++; ops.push_back(e); }
      else { pending = o; have_pending = true; }
    }
  }
  if (have_pending) { pending.id = next_id++; ops.push_back(pending); }
  // full release, random order
  std::vector<int> own;
  for (auto& h : st.hs) if (!h.shared) own.push_back(h.id);
  for (size_t i = own.size(); i > 1; i--) std::swap(own[i - 1], own[r.below(i)]);
  for (int hid : own) {
    Op o;
    o.id = next_id++;
    o.kind = OK_FREE;
    o.h[0] = hid;
    ops.push_back(o);
  }
  out.insert(out.end(), ops.begin(), ops.end());
}

// ------------------------------------------------------------------ text form
static void put_str(std::string& o, const std::string& s) {
  o += '"';
  for (unsigned char c : s) {
    if (c == '"' || c == '\\') { o += '\\'; o += (char)c; }
    else if (c < 32 || c > 126) { char b[8]; snprintf(b, sizeof b, "\\x%02x", c); o += b; }
    else o += (char)c;
  }
  o += '"';
}
static void put_cs(std::string& o, const char* key, const CrystalSpec& c) {
  char b[160];
  snprintf(b, sizeof b, " %s=%llu,%d,%d,%d,%d,", key, (unsigned long long)c.cseed, c.natoms, c.cellclass, c.zclass, c.name_null ? 1 : 0);
  o += b;
  put_str(o, c.name);
}
std::string op_to_text(const Op& p) {
  std::string o = "op";
  char b[256];
  snprintf(b, sizeof b, " id=%d k=%s", p.id, kOpNames[p.kind]); o += b;
  if (!p.fn.empty()) { o += " fn="; o += p.fn; }
  if (p.i[0] || p.i[1] || p.i[2] || p.i[3]) { snprintf(b, sizeof b, " i=%d,%d,%d,%d", p.i[0], p.i[1], p.i[2], p.i[3]); o += b; }
  bool anyd = false;
  for (double v : p.d) anyd = anyd || v != 0 || signbit(v);
  if (anyd) {
    int last = 0;
    for (int k = 0; k < 12; k++) if (p.d[k] != 0 || signbit(p.d[k])) last = k;
    o += " d=";
    for (int k = 0; k <= last; k++) { snprintf(b, sizeof b, "%s%a", k ? "," : "", p.d[k]); o += b; }
  }
  if (!p.s.empty()) { o += " s="; put_str(o, p.s); }
  if (p.snull) o += " snull=1";
  if (p.slot != 1) { snprintf(b, sizeof b, " slot=%d", p.slot); o += b; }
  if (p.keep) o += " keep=1";
  if (p.fail) { snprintf(b, sizeof b, " fail=%d", p.fail); o += b; }
  if (p.h[0] != -1 || p.h[1] != -1) { snprintf(b, sizeof b, " h=%d,%d", p.h[0], p.h[1]); o += b; }
  if (p.probe) o += " probe=1";
  if (p.selfc) o += " selfc=1";
  if (p.kind == OK_CA_ADD || p.kind == OK_CR_COPY || (p.kind == OK_CR_MATH && p.s.empty()) || p.kind == OK_CA_FILL) put_cs(o, "cs", p.cs);
  if (p.kind == OK_CA_READ) {
    const FileSpec& f = p.fs;
    snprintf(b, sizeof b, " fmut=%s fmseed=%llu", kFileMutNames[f.mut], (unsigned long long)f.mseed); o += b;
    if (f.open_errno) { snprintf(b, sizeof b, " fopen=%d", f.open_errno); o += b; }
    if (f.eio_at >= 0) { snprintf(b, sizeof b, " feio=%ld", f.eio_at); o += b; }
    if (f.trunc_at >= 0) { snprintf(b, sizeof b, " ftrunc=%ld", f.trunc_at); o += b; }
    if (f.chunk) { snprintf(b, sizeof b, " fchunk=%d", f.chunk); o += b; }
    if (f.unseekable) o += " funseek=1";
    if (f.name_null) o += " fnull=1";
    for (auto& c : f.crystals) put_cs(o, "fcr", c);
  }
  return o;
}

std::string plan_to_text(const Plan& p) {
  std::string o = "xrlsim-plan 1\n";
  char b[256];
  o += "engine " + p.engine + "\nbatch " + p.batch + "\ndata " + p.data + "\n";
  snprintf(b, sizeof b, "seed %llu\nrunseed %llu\nlocale %d\nreuse %d\n", (unsigned long long)p.seed, (unsigned long long)p.runseed, p.locale, p.reuse); o += b;
  if (p.fill) { snprintf(b, sizeof b, "fill %d\n", p.fill); o += b; }
  if (p.perturb) o += "perturb 1\n";
  if (p.errno_mode) o += "errno_mode 1\n";
  snprintf(b, sizeof b, "sched policy=%d param=%d seed=%llu\n", p.sched.policy, p.sched.param, (unsigned long long)p.sched.seed); o += b;
  if (!p.sched.task_events_hint.empty()) {
    o += "hint";
    for (auto e : p.sched.task_events_hint) { snprintf(b, sizeof b, " %llu", (unsigned long long)e); o += b; }
    o += "\n";
  }
  if (!p.setup.empty()) {
    o += "setup\n";
    for (auto& op : p.setup) o += op_to_text(op) + "\n";
  }
  for (size_t t = 0; t < p.tasks.size(); t++) {
    snprintf(b, sizeof b, "task %zu", t); o += b;
    if (p.tasks[t].tloc) { snprintf(b, sizeof b, " tloc=%d", p.tasks[t].tloc); o += b; }
    if (p.tasks[t].wave) { snprintf(b, sizeof b, " wave=%d", p.tasks[t].wave); o += b; }
    o += "\n";
    for (auto& op : p.tasks[t].ops) o += op_to_text(op) + "\n";
  }
  for (auto& d : p.sched.directives) {
    snprintf(b, sizeof b, "dir task=%d at=%llu to=%d\n", d.task, (unsigned long long)d.at_event, d.to); o += b;
  }
  if (!p.expect.empty()) o += "expect " + p.expect + "\n";
  o += "end\n";
  return o;
}

uint64_t plan_hash(const Plan& p) {
  Plan q = p;
  q.seed = q.runseed = 0;
  q.expect.clear();
  q.data.clear();
  return hash_str(plan_to_text(q).c_str());
}

// tokenizer: key=value tokens separated by blanks; quoted strings may contain blanks
static std::vector<std::pair<std::string, std::string>> tokenize(const std::string& line) {
  std::vector<std::pair<std::string, std::string>> out;
  size_t i = 0, n = line.size();
  while (i < n) {
    while (i < n && line[i] == ' ') i++;
    if (i >= n) break;
    size_t ks = i;
    while (i < n && line[i] != '=' && line[i] != ' ') i++;
    std::string key = line.substr(ks, i - ks), val;
    if (i < n && line[i] == '=') {
      i++;
      bool inq = false;
      while (i < n && (inq || line[i] != ' ')) {
        if (line[i] == '\\' && inq && i + 1 < n) { val += line[i]; val += line[i + 1]; i += 2; continue; }
        if (line[i] == '"') inq = !inq;
        val += line[i++];
      }
    }
    out.push_back({key, val});
  }
  return out;
}
static std::string unquote(const std::string& v) {
  size_t a = v.find('"');
  if (a == std::string::npos) return v;
  std::string o;
  for (size_t i = a + 1; i < v.size(); i++) {
    char c = v[i];
    if (c == '"') break;
    if (c == '\\' && i + 1 < v.size()) {
      if (v[i + 1] == 'x' && i + 3 < v.size()) { o += (char)strtol(v.substr(i + 2, 2).c_str(), nullptr, 16); i += 3; }
      else { o += v[i + 1]; i++; }
    } else o += c;
  }
  return o;
}
static bool parse_cs(const std::string& v, CrystalSpec& c) {
  unsigned long long seed;
  int na, cc, zc, nn;
  if (sscanf(v.c_str(), "%llu,%d,%d,%d,%d,", &seed, &na, &cc, &zc, &nn) != 5) return false;
  c.cseed = seed; c.natoms = na; c.cellclass = cc; c.zclass = zc; c.name_null = nn != 0;
  c.name = unquote(v);
  return true;
}
static bool parse_op(const std::string& line, Op& o, std::string* err) {
  auto toks = tokenize(line);
  for (size_t t = 1; t < toks.size(); t++) {
    const std::string& k = toks[t].first;
    const std::string& v = toks[t].second;
    if (k == "id") o.id = atoi(v.c_str());
    else if (k == "k") {
      o.kind = -1;
      for (int i = 0; i < OK_N; i++) if (v == kOpNames[i]) o.kind = i;
      if (o.kind < 0) { if (err) *err = "unknown op kind " + v; return false; }
    }
    else if (k == "fn") o.fn = v;
    else if (k == "i") sscanf(v.c_str(), "%d,%d,%d,%d", &o.i[0], &o.i[1], &o.i[2], &o.i[3]);
    else if (k == "d") {
      const char* p = v.c_str();
      for (int j = 0; j < 12 && *p; j++) { char* e; o.d[j] = strtod(p, &e); p = *e == ',' ? e + 1 : e; }
    }
    else if (k == "s") o.s = unquote(v);
    else if (k == "snull") o.snull = v == "1";
    else if (k == "slot") o.slot = atoi(v.c_str());
    else if (k == "keep") o.keep = atoi(v.c_str());
    else if (k == "fail") o.fail = atoi(v.c_str());
    else if (k == "h") sscanf(v.c_str(), "%d,%d", &o.h[0], &o.h[1]);
    else if (k == "probe") o.probe = atoi(v.c_str());
    else if (k == "selfc") o.selfc = atoi(v.c_str());
    else if (k == "cs") { if (!parse_cs(v, o.cs)) { if (err) *err = "bad cs"; return false; } }
    else if (k == "fcr") { CrystalSpec c; if (!parse_cs(v, c)) { if (err) *err = "bad fcr"; return false; } o.fs.crystals.push_back(c); }
    else if (k == "fmut") { o.fs.mut = -1; for (int i = 0; i < FM_N; i++) if (v == kFileMutNames[i]) o.fs.mut = i; if (o.fs.mut < 0) { if (err) *err = "bad fmut"; return false; } }
    else if (k == "fmseed") o.fs.mseed = strtoull(v.c_str(), nullptr, 10);
    else if (k == "fopen") o.fs.open_errno = atoi(v.c_str());
    else if (k == "feio") o.fs.eio_at = atol(v.c_str());
    else if (k == "ftrunc") o.fs.trunc_at = atol(v.c_str());
    else if (k == "fchunk") o.fs.chunk = atoi(v.c_str());
    else if (k == "funseek") o.fs.unseekable = v == "1";
    else if (k == "fnull") o.fs.name_null = v == "1";
  }
  return true;
}

bool plan_from_text(const std::string& txt, Plan& p, std::string* err) {
  p = Plan();
  size_t pos = 0;
  int section = -2;  // -1 setup, >=0 task
  bool header = false;
  while (pos < txt.size()) {
    size_t e = txt.find('\n', pos);
    std::string line = txt.substr(pos, e == std::string::npos ? std::string::npos : e - pos);
    pos = e == std::string::npos ? txt.size() : e + 1;
    if (line.empty() || line[0] == '#') continue;
    if (line.rfind("xrlsim-plan", 0) == 0) { header = true; continue; }
    if (line.rfind("engine ", 0) == 0) p.engine = line.substr(7);
    else if (line.rfind("batch ", 0) == 0) p.batch = line.substr(6);
    else if (line.rfind("data ", 0) == 0) p.data = line.substr(5);
    else if (line.rfind("seed ", 0) == 0) p.seed = strtoull(line.c_str() + 5, nullptr, 10);
    else if (line.rfind("runseed ", 0) == 0) p.runseed = strtoull(line.c_str() + 8, nullptr, 10);
    else if (line.rfind("locale ", 0) == 0) p.locale = atoi(line.c_str() + 7);
    else if (line.rfind("reuse ", 0) == 0) p.reuse = atoi(line.c_str() + 6);
    else if (line.rfind("fill ", 0) == 0) p.fill = atoi(line.c_str() + 5);
    else if (line.rfind("perturb ", 0) == 0) p.perturb = atoi(line.c_str() + 8);
    else if (line.rfind("errno_mode ", 0) == 0) p.errno_mode = atoi(line.c_str() + 11);
    else if (line.rfind("sched ", 0) == 0) {
      for (auto& kv : tokenize(line)) {
        if (kv.first == "policy") p.sched.policy = atoi(kv.second.c_str());
        if (kv.first == "param") p.sched.param = atoi(kv.second.c_str());
        if (kv.first == "seed") p.sched.seed = strtoull(kv.second.c_str(), nullptr, 10);
      }
    }
    else if (line.rfind("hint", 0) == 0) {
      const char* q = line.c_str() + 4;
      char* e;
      for (;;) { unsigned long long v = strtoull(q, &e, 10); if (e == q) break; p.sched.task_events_hint.push_back(v); q = e; }
    }
    else if (line == "setup") section = -1;
    else if (line.rfind("task ", 0) == 0) {
      section = atoi(line.c_str() + 5);
      while ((int)p.tasks.size() <= section) p.tasks.push_back(TaskPlan());
      const char* tl = strstr(line.c_str(), "tloc=");
      if (tl) p.tasks[section].tloc = atoi(tl + 5);
      const char* wv = strstr(line.c_str(), "wave=");
      if (wv) p.tasks[section].wave = atoi(wv + 5);
    }
    else if (line.rfind("op ", 0) == 0) {
      Op o;
      if (!parse_op(line, o, err)) return false;
      if (section == -1) p.setup.push_back(o);
      else if (section >= 0) p.tasks[section].ops.push_back(o);
      else { if (err) *err = "op outside section"; return false; }
      p.next_id = std::max(p.next_id, o.id + 1);
    }
    else if (line.rfind("dir ", 0) == 0) {
      Directive d{0, 0, 0};
      for (auto& kv : tokenize(line)) {
        if (kv.first == "task") d.task = atoi(kv.second.c_str());
        if (kv.first == "at") d.at_event = strtoull(kv.second.c_str(), nullptr, 10);
        if (kv.first == "to") d.to = atoi(kv.second.c_str());
      }
      p.sched.directives.push_back(d);
    }
    else if (line.rfind("expect ", 0) == 0) p.expect = line.substr(7);
    else if (line == "end") break;
  }
  if (!header) { if (err) *err = "not a plan file"; return false; }
  return true;
}

// independent parse of data/Crystals.dat for the model of the built-in collection
void load_builtin_crystals(const char* path) {
  g_builtin_crystals.clear();
  FILE* f = fopen(path, "r");
  if (!f) return;
  char line[1024];
  CrystalData cur;
  bool have = false, in_atoms = false;
  auto flush = [&]() { if (have) g_builtin_crystals.push_back(cur); have = false; in_atoms = false; };
  while (fgets(line, sizeof line, f)) {
    if (line[0] == '#') {
      in_atoms = false;
      if (line[1] == 'S' && (line[2] == ' ' || line[2] == '\t')) {
        flush();
        int num; char nm[256];
        if (sscanf(line + 2, "%d %255s", &num, nm) == 2) { cur = CrystalData(); cur.name = nm; have = true; }
      } else if (!strncmp(line, "#UCELL", 6) && have) {
        sscanf(line + 6, "%lf %lf %lf %lf %lf %lf", &cur.cell[0], &cur.cell[1], &cur.cell[2], &cur.cell[3], &cur.cell[4], &cur.cell[5]);
      } else if (line[1] == 'L' && have) in_atoms = true;
      else if (!strncmp(line, "#EOF", 4)) break;
    } else if (in_atoms && have) {
      CAtom a;
      if (sscanf(line, "%d %lf %lf %lf %lf", &a.Z, &a.frac, &a.x, &a.y, &a.z) == 5) cur.atoms.push_back(a);
    }
  }
  flush();
  fclose(f);
  std::sort(g_builtin_crystals.begin(), g_builtin_crystals.end(), [](const CrystalData& a, const CrystalData& b) { return a.name < b.name; });
}

}  // namespace xs
