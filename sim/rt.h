// xrlsim runtime: shared state, event log, seams, instrumentation callbacks.
// Nothing here calls the library.  See DESIGN.md §2.
#pragma once
#include <stdint.h>
#include <stddef.h>
#include <stdio.h>
#include <string>
#include <vector>
#include <map>

namespace xs {

// ---------------------------------------------------------------- PRNG
static inline uint64_t splitmix64(uint64_t x) {
  x += 0x9e3779b97f4a7c15ULL;
  x = (x ^ (x >> 30)) * 0xbf58476d1ce4e5b9ULL;
  x = (x ^ (x >> 27)) * 0x94d049bb133111ebULL;
  return x ^ (x >> 31);
}
static inline uint64_t hash_str(const char* s, uint64_t h = 1469598103934665603ULL) {
  for (; *s; ++s) { h ^= (unsigned char)*s; h *= 1099511628211ULL; }
  return h;
}
struct Rng {
  uint64_t s[4];
  explicit Rng(uint64_t seed = 1) { reseed(seed); }
  void reseed(uint64_t seed) { for (int i = 0; i < 4; i++) { seed = splitmix64(seed); s[i] = seed; } }
  static inline uint64_t rotl(uint64_t x, int k) { return (x << k) | (x >> (64 - k)); }
  uint64_t next() {
    uint64_t r = rotl(s[1] * 5, 7) * 9, t = s[1] << 17;
    s[2] ^= s[0]; s[3] ^= s[1]; s[1] ^= s[2]; s[0] ^= s[3]; s[2] ^= t; s[3] = rotl(s[3], 45);
    return r;
  }
  uint64_t below(uint64_t n) { return n ? next() % n : 0; }
  int range(int lo, int hi) { return lo + (int)below((uint64_t)(hi - lo + 1)); }  // inclusive
  bool chance(int num, int den) { return below(den) < (uint64_t)num; }
  double unit() { return (next() >> 11) * (1.0 / 9007199254740992.0); }
};

// ---------------------------------------------------------------- limits
enum { MAXTASK = 16, MAXOPS = 4096, MAXVIOL = 8, LOGCAP = 1 << 21, MAXPROBE = 48, MAXFAULTKIND = 16 };

struct Viol {
  char cls[32];     // violation class
  char site[96];    // innermost library site / op pattern
  char detail[400];
  int task, op;     // op = stable op id
};

struct OpResult {
  uint64_t digest;
  uint8_t done, failed, fault_fired, oom;  // oom: 0 none 1 handled 2 swallowed
  uint32_t nalloc;                         // allocations performed inside the op
};

// fault kinds counted when they actually FIRED
enum FaultKind { FK_ALLOC = 0, FK_OPEN_ERRNO, FK_EIO, FK_TRUNC, FK_SHORTREAD, FK_UNSEEKABLE, FK_CORRUPT, FK_PREEMPT, FK_ALLOC_HUGE, FK_N };
extern const char* const kFaultNames[FK_N];

// named rare-condition probes (DESIGN §7)
enum ProbeId {
  PR_GROWTH = 0, PR_AT_CAPACITY, PR_BUILTIN_FULL, PR_READ_FAIL_AFTER_ONE, PR_OOM_HANDLED, PR_OOM_SWALLOWED,
  PR_FRACTION_PARSED_IN_COMMA_LOCALE, PR_ERR_ALIVE_10, PR_PREEMPT_VISIBLE, PR_DUP_REJECTED, PR_READ_OK_MULTI, PR_COPY_MUTATED,
  PR_READ_SHORT_OK, PR_NESTED_FORMULA, PR_NIST_FALLBACK, PR_ERR_PROPAGATED, PR_SHARED_CRYSTAL_2TASKS, PR_READ_EIO,
  PR_READ_TRUNC_REJECT, PR_ARRAY_ZERO_CAP, PR_PARSE_UNDER_TLOC, PR_PARSE_FAIL_UNDER_TLOC, PR_READFILE_UNDER_TLOC, PR_LAYOUT_VARIANT_ACCEPTED, PR_LAYOUT_VARIANT_REJECTED, PR_N
};
extern const char* const kProbeNames[PR_N];

struct Shared {
  // --- per run (reset by parent before fork)
  uint64_t log_hash;
  uint32_t log_len;
  uint32_t log_dropped;
  int32_t done;            // child reached the end of the plan
  int32_t stopped_op;      // op id at which the run was deliberately stopped (oom swallowed), -1
  int32_t cur_task, cur_op, cur_op_kind;
  int32_t cur_fault_fired; // an injected allocation fault fired in the op in flight
  char cur_fn[64];
  int32_t nviol;
  Viol viol[MAXVIOL];
  uint64_t events, edges_new, allocs, seam_calls, preemptions, switches;
  uint64_t faults[FK_N];
  uint64_t probes[PR_N];
  uint64_t sched_hash;
  uint64_t task_events[MAXTASK];
  uint32_t nresults[MAXTASK];
  OpResult res[MAXTASK][MAXOPS];
  uint32_t ops_done, ops_alloc;   // executed ops / executed ops that allocated
  uint32_t races_seen;
  uint32_t unmodelled_sync;       // race reports downgraded because both sites use atomic instructions
  uint32_t oom_unhandled_hint;    // set just before a deref that may crash? (unused)
  char log[LOGCAP];
};
extern Shared* SH;

// coverage bitmap: persistent across the runs of one worker
extern uint8_t* g_cov;      // one byte per guard
extern uint32_t g_cov_n;
extern uint8_t* g_pairs;    // 64 Ki-bit set of hashed (switched-out function, switched-in function) pairs, persistent per worker
void coverage_by_function(std::map<std::string, std::pair<int, int>>& out);   // name -> (covered, total) edges

// ---------------------------------------------------------------- log
void logf(const char* fmt, ...) __attribute__((format(printf, 1, 2)));
void violation(const char* cls, const char* site, const char* fmt, ...) __attribute__((format(printf, 3, 4)));
[[noreturn]] void child_exit(int code);

// ---------------------------------------------------------------- symbols
struct Sym { uintptr_t addr; size_t size; char type; std::string name; };
void symbols_load(const char* exe_sym_path, const char* bdir);
const Sym* sym_lookup(uintptr_t pc_abs);            // by absolute address (PIE base applied)
const Sym* sym_lookup_off(uintptr_t off);           // by module offset
bool sym_is_libfunc(const std::string& name);
bool sym_is_atomic_func(const std::string& name);   // function contains atomic RMW / fence instructions (build-time scan)
uintptr_t exe_base();
std::string site_of_pc(uintptr_t pc_abs);           // library function name containing pc, or "?"
std::string data_site(uintptr_t addr);              // symbol+offset of a static-storage address

// ---------------------------------------------------------------- table set (C16 write monitor)
void tables_init();
bool in_table_set(uintptr_t a);
uint64_t tables_hash();
bool in_lib_static(uintptr_t a);
void tables_snapshot();                       // template: remember the pristine contents (per symbol)
bool tables_changed(std::string* which);      // compare with the snapshot
extern bool g_table_store_seen;               // an instrumented store hit the table set during the current op
extern char g_table_store_site[96], g_table_store_where[128];

// ---------------------------------------------------------------- allocator seam
struct AllocInfo { uint32_t id; uint32_t size; int task; int op; int nth; uintptr_t site0, site1; int op_kind; };
size_t live_count();
void live_snapshot(std::vector<std::pair<void*, AllocInfo>>& out);
const AllocInfo* live_find(const void* p);
void reuse_reset(bool on);      // allocator reuse mode for this run (see rt.cc)
extern bool g_reuse_mode;
extern uint64_t g_sim_entropy;   // state of the simulated entropy source, seeded per run
extern int g_fill_byte;        // plan field `fill` (rt.cc)
void arm_alloc_fault(int kth);   // k-th allocation of the current op fails (0 = none)
int op_alloc_count();            // allocations attempted so far in the current op
bool op_fault_fired();

// ---------------------------------------------------------------- virtual files
struct VFile {
  std::string name, content;
  int open_errno = 0;      // fopen fails with this errno
  long eio_at = -1;        // persistent EIO once position >= eio_at
  long trunc_at = -1;      // content cut at this byte
  int chunk = 0;           // >0: each read returns at most this many bytes (legal short reads)
  bool unseekable = false; // seek fails with ESPIPE
};
void vfs_clear();
void vfs_add(const VFile& f);
int vfs_open_streams();
void vfs_begin_op();             // resets per-op I/O step counter

// ---------------------------------------------------------------- run context
struct TaskCtx {
  int id;
  uintptr_t stack_lo, stack_hi;
  uint64_t events;
  // the op this task has in flight (tasks interleave, so this cannot be process-global)
  int cur_op = -1, cur_kind = 0;
  char cur_fn[64] = {0};
  int op_allocs = 0, fail_at = 0;
  bool fault_fired = false;
  int open_streams = 0;
  long io_steps = 0, io_budget = 0;
  // the locale object the CALLER of the library installed in this thread with uselocale() (plan field tloc)
  void* caller_loc = nullptr;
  int caller_loc_kind = 0;
  char caller_loc_sig[96] = {0};
  // thread-specific data of this task (pthread_key / tss seams, sched.cc)
  void* tsd[32] = {nullptr};
};
void publish_ctx(TaskCtx* t);   // make t's op the one blamed for a crash / violation (called when t gets the CPU)
extern thread_local TaskCtx* t_task;
extern bool g_threads_mode;      // baton scheduler + race detector active
extern bool g_in_op;             // a library call issued by an op is in flight (single-task engines)
void op_begin(int task, int opid, int kind, const char* fn);
void op_end();
void set_task_stack(TaskCtx* t);
void task_thread_exit();         // the calling task's thread ends: thread-specific-data destructors run now, under the scheduler's control
void cache_main_stack();
void run_reset_child();          // called first thing in a freshly forked child

// locale configurations
enum { LOC_C = 0, LOC_CUTF8 = 1, LOC_XX = 2 };
const char* locale_name(int cfg);
bool apply_locale(int cfg);
extern int g_locale_cfg;
extern std::string g_locale_all;  // setlocale(LC_ALL,NULL) right after apply_locale
// Caller-owned per-thread locale (plan field `tloc`): programs that call uselocale() themselves hand the library a
// thread whose current locale is a heap object the library does not own.
//   0 none (thread follows the process locale)   1 copy of the process locale
//   2 copy with LC_NUMERIC=xx_XX (decimal comma)  3 copy with LC_NUMERIC=C
enum { TLOC_NONE = 0, TLOC_DUP = 1, TLOC_XX = 2, TLOC_C = 3, TLOC_N = 4 };
void caller_locale_install(int kind);            // start of a task body (real libc, the harness is the caller)
void caller_locale_check(bool identity, const char* fn);   // after every op; identity: the thread must still use it
void caller_locale_remove();                      // end of a task body

// ---------------------------------------------------------------- scheduler / race detector (sched.cc)
void on_mem_access(uintptr_t a, size_t n, bool write, uintptr_t pc);   // from callbacks and ranged seams
void on_edge(uintptr_t pc);
void virt_access(int loc, bool write, const char* what, uintptr_t pc); // virtual shared locations
enum { VL_LOCALE_NUMERIC = 0, VL_LOCALE_OTHER, VL_STRTOK, VL_RAND, VL_TM, VL_ENV, VL_LOCALECONV, VL_CWD, VL_HSEARCH, VL_SIGNGAM, VL_CVTBUF, VL_N };
void sched_visible(const char* what);   // a visible operation is about to happen (targeted strategy)
void race_forget_range(uintptr_t a, size_t n);
void race_touch(uintptr_t a, size_t n, bool write, uintptr_t pc);  // detector only, no yield
extern bool g_monitor_tables;           // report stores into the table set (purity engine)
extern uint64_t g_event_cap;

}  // namespace xs
