// Baton scheduler over real pthreads + vector-clock race detector (DESIGN §2.4, §2.5).
#pragma once
#include "rt.h"
#include <functional>
#include <string>
#include <vector>

namespace xs {

enum SchedPolicy { SP_SERIAL = 0, SP_RANDOM = 1, SP_PCT = 2, SP_TARGETED = 3, SP_EXPLICIT = 4 };

struct Directive { int task; uint64_t at_event; int to; };

struct SchedCfg {
  int policy = SP_SERIAL;
  int param = 64;                 // random: 1/param per event; pct: depth d; targeted: 1/param at visible ops
  uint64_t seed = 0;
  std::vector<uint64_t> task_events_hint;  // per-task event counts from the serial reference (pct)
  std::vector<Directive> directives;       // explicit mode
};

enum { MAXDIRS = 4096 };
struct SchedRecord {   // lives in shared memory next to Shared
  uint32_t ndirs;
  uint32_t overflow;
  Directive dirs[MAXDIRS];
};
extern SchedRecord* SR;

// run the bodies as tasks under the baton scheduler; returns when all finished (or the run was stopped)
void run_tasks(const SchedCfg& cfg, std::vector<std::function<void()>>& bodies, const std::vector<int>& waves = std::vector<int>());
int current_task();

}  // namespace xs
