/* Force-included (-include) into every library source by the simulator build — never part of /repo.
 *
 * C11 / GNU atomic operations compile to inline instructions: the coverage instrumentation does not see
 * read-modify-write operations at all and sees atomic loads and stores as plain accesses, so the scheduler would
 * have no yield point there and the vector-clock race detector would know nothing about the ordering they
 * establish (a correct spinlock or a release/acquire publication would look like a data race).
 * These macros keep the real builtin and bracket it with two simulator hooks:
 *   xs_atomic_pre  : yield point; release edge for stores / RMWs with release semantics
 *   xs_atomic_post : acquire edge for loads / RMWs with acquire semantics
 * A macro is not re-expanded inside its own expansion, so the inner name is the compiler builtin.
 * The pointer argument is evaluated twice; atomics are applied to simple lvalue addresses in practice.
 */
#ifndef XS_ATOMICS_H
#define XS_ATOMICS_H
#ifndef __cplusplus
extern void xs_atomic_pre(const volatile void *addr, int kind, int memorder);
extern void xs_atomic_post(const volatile void *addr, int kind, int memorder);
enum { XS_A_LOAD = 1, XS_A_STORE = 2, XS_A_RMW = 3, XS_A_FENCE = 4 };

#define XS_A_VAL(call, p, kind, mo) __extension__({ xs_atomic_pre((const volatile void *)(p), kind, mo); __auto_type xs_a_r_ = call; xs_atomic_post((const volatile void *)(p), kind, mo); xs_a_r_; })
#define XS_A_VOID(call, p, kind, mo) do { xs_atomic_pre((const volatile void *)(p), kind, mo); call; xs_atomic_post((const volatile void *)(p), kind, mo); } while (0)

/* C11 <stdatomic.h> (clang maps atomic_xxx() onto these) */
#define __c11_atomic_load(p, mo) XS_A_VAL(__c11_atomic_load(p, mo), p, XS_A_LOAD, mo)
#define __c11_atomic_store(p, v, mo) XS_A_VOID(__c11_atomic_store(p, v, mo), p, XS_A_STORE, mo)
#define __c11_atomic_exchange(p, v, mo) XS_A_VAL(__c11_atomic_exchange(p, v, mo), p, XS_A_RMW, mo)
#define __c11_atomic_fetch_add(p, v, mo) XS_A_VAL(__c11_atomic_fetch_add(p, v, mo), p, XS_A_RMW, mo)
#define __c11_atomic_fetch_sub(p, v, mo) XS_A_VAL(__c11_atomic_fetch_sub(p, v, mo), p, XS_A_RMW, mo)
#define __c11_atomic_fetch_and(p, v, mo) XS_A_VAL(__c11_atomic_fetch_and(p, v, mo), p, XS_A_RMW, mo)
#define __c11_atomic_fetch_or(p, v, mo) XS_A_VAL(__c11_atomic_fetch_or(p, v, mo), p, XS_A_RMW, mo)
#define __c11_atomic_fetch_xor(p, v, mo) XS_A_VAL(__c11_atomic_fetch_xor(p, v, mo), p, XS_A_RMW, mo)
#define __c11_atomic_compare_exchange_strong(p, e, d, ms, mf) XS_A_VAL(__c11_atomic_compare_exchange_strong(p, e, d, ms, mf), p, XS_A_RMW, ms)
#define __c11_atomic_compare_exchange_weak(p, e, d, ms, mf) XS_A_VAL(__c11_atomic_compare_exchange_weak(p, e, d, ms, mf), p, XS_A_RMW, ms)
#define __c11_atomic_thread_fence(mo) XS_A_VOID(__c11_atomic_thread_fence(mo), 0, XS_A_FENCE, mo)

/* GNU __atomic builtins */
#define __atomic_load_n(p, mo) XS_A_VAL(__atomic_load_n(p, mo), p, XS_A_LOAD, mo)
#define __atomic_store_n(p, v, mo) XS_A_VOID(__atomic_store_n(p, v, mo), p, XS_A_STORE, mo)
#define __atomic_exchange_n(p, v, mo) XS_A_VAL(__atomic_exchange_n(p, v, mo), p, XS_A_RMW, mo)
#define __atomic_load(p, r, mo) XS_A_VOID(__atomic_load(p, r, mo), p, XS_A_LOAD, mo)
#define __atomic_store(p, v, mo) XS_A_VOID(__atomic_store(p, v, mo), p, XS_A_STORE, mo)
#define __atomic_exchange(p, v, r, mo) XS_A_VOID(__atomic_exchange(p, v, r, mo), p, XS_A_RMW, mo)
#define __atomic_compare_exchange_n(p, e, d, w, ms, mf) XS_A_VAL(__atomic_compare_exchange_n(p, e, d, w, ms, mf), p, XS_A_RMW, ms)
#define __atomic_compare_exchange(p, e, d, w, ms, mf) XS_A_VAL(__atomic_compare_exchange(p, e, d, w, ms, mf), p, XS_A_RMW, ms)
#define __atomic_fetch_add(p, v, mo) XS_A_VAL(__atomic_fetch_add(p, v, mo), p, XS_A_RMW, mo)
#define __atomic_fetch_sub(p, v, mo) XS_A_VAL(__atomic_fetch_sub(p, v, mo), p, XS_A_RMW, mo)
#define __atomic_fetch_and(p, v, mo) XS_A_VAL(__atomic_fetch_and(p, v, mo), p, XS_A_RMW, mo)
#define __atomic_fetch_or(p, v, mo) XS_A_VAL(__atomic_fetch_or(p, v, mo), p, XS_A_RMW, mo)
#define __atomic_fetch_xor(p, v, mo) XS_A_VAL(__atomic_fetch_xor(p, v, mo), p, XS_A_RMW, mo)
#define __atomic_add_fetch(p, v, mo) XS_A_VAL(__atomic_add_fetch(p, v, mo), p, XS_A_RMW, mo)
#define __atomic_sub_fetch(p, v, mo) XS_A_VAL(__atomic_sub_fetch(p, v, mo), p, XS_A_RMW, mo)
#define __atomic_and_fetch(p, v, mo) XS_A_VAL(__atomic_and_fetch(p, v, mo), p, XS_A_RMW, mo)
#define __atomic_or_fetch(p, v, mo) XS_A_VAL(__atomic_or_fetch(p, v, mo), p, XS_A_RMW, mo)
#define __atomic_xor_fetch(p, v, mo) XS_A_VAL(__atomic_xor_fetch(p, v, mo), p, XS_A_RMW, mo)
#define __atomic_test_and_set(p, mo) XS_A_VAL(__atomic_test_and_set(p, mo), p, XS_A_RMW, mo)
#define __atomic_clear(p, mo) XS_A_VOID(__atomic_clear(p, mo), p, XS_A_STORE, mo)
#define __atomic_thread_fence(mo) XS_A_VOID(__atomic_thread_fence(mo), 0, XS_A_FENCE, mo)

/* legacy __sync builtins: full barriers */
#define __sync_fetch_and_add(p, ...) XS_A_VAL(__sync_fetch_and_add(p, __VA_ARGS__), p, XS_A_RMW, 5)
#define __sync_fetch_and_sub(p, ...) XS_A_VAL(__sync_fetch_and_sub(p, __VA_ARGS__), p, XS_A_RMW, 5)
#define __sync_fetch_and_or(p, ...) XS_A_VAL(__sync_fetch_and_or(p, __VA_ARGS__), p, XS_A_RMW, 5)
#define __sync_fetch_and_and(p, ...) XS_A_VAL(__sync_fetch_and_and(p, __VA_ARGS__), p, XS_A_RMW, 5)
#define __sync_add_and_fetch(p, ...) XS_A_VAL(__sync_add_and_fetch(p, __VA_ARGS__), p, XS_A_RMW, 5)
#define __sync_sub_and_fetch(p, ...) XS_A_VAL(__sync_sub_and_fetch(p, __VA_ARGS__), p, XS_A_RMW, 5)
#define __sync_bool_compare_and_swap(p, ...) XS_A_VAL(__sync_bool_compare_and_swap(p, __VA_ARGS__), p, XS_A_RMW, 5)
#define __sync_val_compare_and_swap(p, ...) XS_A_VAL(__sync_val_compare_and_swap(p, __VA_ARGS__), p, XS_A_RMW, 5)
#define __sync_lock_test_and_set(p, ...) XS_A_VAL(__sync_lock_test_and_set(p, __VA_ARGS__), p, XS_A_RMW, 5)
#define __sync_lock_release(p) XS_A_VOID(__sync_lock_release(p), p, XS_A_STORE, 3)
#define __sync_synchronize() XS_A_VOID(__sync_synchronize(), 0, XS_A_FENCE, 5)
#endif /* !__cplusplus */
#endif
