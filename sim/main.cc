// xrlsim worker: zygote that forks one child per simulated run, classifies outcomes, gates and minimises
// violations, and writes JSON-lines results for the Python runner.  The zygote never calls the library.
#include "ops.h"
#include "xsched.h"
#include <algorithm>
#include <errno.h>
#include <fcntl.h>
#include <functional>
#include <set>
#include <signal.h>
#include <string.h>
#include <sys/mman.h>
#include <sys/stat.h>
#include <sys/wait.h>
#include <time.h>
#include <unistd.h>
#include <unordered_map>
#include <unordered_set>

using namespace xs;

namespace xs {
std::vector<std::pair<uint64_t, std::string>> tables_range_hashes();
std::string tables_first_diff(const std::vector<std::pair<uint64_t, std::string>>& ref);
}

// ------------------------------------------------------------------ options
struct Opts {
  std::string engine = "mem", batch = "hist", outdir = ".", bdir = ".", replay, tier = "quick", tag = "w0";
  uint64_t seed = 1;
  long first = 0, stride = 1, count = 1000000000L;
  double budget_s = 10;
  int gate_n = 0;           // the first gate_n indices are executed twice and their hashes reported
  int max_ops = 40;
  int verbose = 0;
  std::string avoid;        // comma separated quarantine switches
  int catalogue = 2000;     // purity probe catalogue size
  std::string first_cache;  // purity: precomputed first-call results (written by batch "first")
  std::string data = "shipped";
  bool print_log = false;
};
static Opts O;
static bool avoid(const char* what) { return ("," + O.avoid + ",").find(std::string(",") + what + ",") != std::string::npos; }

static double now_s() {
  struct timespec ts;
  clock_gettime(CLOCK_MONOTONIC, &ts);
  return ts.tv_sec + ts.tv_nsec * 1e-9;
}

// ------------------------------------------------------------------ JSON helpers
static std::string jesc(const std::string& s) {
  std::string o;
  for (unsigned char c : s) {
    if (c == '"' || c == '\\') { o += '\\'; o += (char)c; }
    else if (c == '\n') o += "\\n";
    else if (c < 32 || c > 126) { char b[8]; snprintf(b, sizeof b, "\\u%04x", c); o += b; }
    else o += (char)c;
  }
  return o;
}
static FILE* g_out = nullptr;
static void emit(const std::string& line) { fputs(line.c_str(), g_out); fputc('\n', g_out); fflush(g_out); }

// ------------------------------------------------------------------ run machinery
static int g_fd_out = -1, g_fd_err = -1;
static uint64_t g_tab_hash0 = 0;
static std::vector<std::pair<uint64_t, std::string>> g_tab_ranges0;
static const size_t kSharedHdr = offsetof(Shared, log);

struct Sig { std::string cls, site, detail; int task = 0, op = 0; std::string key() const { return cls + "@" + site; } };

enum Status { ST_OK = 0, ST_VIOL, ST_OOM_UNHANDLED, ST_WATCHDOG, ST_INTERNAL };
struct Outcome {
  int status = ST_OK;
  std::vector<Sig> sigs;
  uint64_t log_hash = 0;
  std::string oom_site;
  std::string stderr_text;
  std::string log;          // copy of the child's event log (only when requested)
  bool stopped = false;
  // copies of counters
  uint64_t events = 0;
  std::vector<OpResult> res[MAXTASK];
  uint64_t task_events[MAXTASK] = {0};
  std::vector<Directive> dirs;
  bool dirs_overflow = false;
  bool has(const std::string& key) const { for (auto& s : sigs) if (s.key() == key) return true; return false; }
};

struct Totals {
  uint64_t runs = 0, events = 0, allocs = 0, seam_calls = 0, preemptions = 0, switches = 0, ops = 0, ops_alloc = 0;
  uint64_t faults[FK_N] = {0}, probes[PR_N] = {0};
  uint64_t oom_unhandled = 0, oom_swallowed = 0, watchdog = 0, forks = 0, internal = 0, unmodelled_sync = 0;
  std::unordered_map<std::string, uint64_t> oom_sites;
  std::unordered_set<uint64_t> nontrivial, sched_hashes;
  uint64_t runs_by_locale[3] = {0, 0, 0};
  uint64_t runs_caller_tloc = 0;
  uint64_t runs_waves = 0;         // threads engine: runs in which a later wave of tasks started after earlier threads had exited
  uint64_t perturb_runs = 0;       // partner runs with other contents of uninitialised memory (mem engine)   // runs in which at least one task ran under its own uselocale() object
  std::map<std::string, uint64_t> per_batchkind;
} TT;

static void child_run(const Plan& p);

// ---- pristine template process (DESIGN §2.2) -------------------------------------------------------------
// Every run is a child of a template process whose state is a function of the executable and the build
// directory only: it is forked before the worker parses its options, initialises itself the same way in every
// invocation, and afterwards never touches the heap.  The heap layout, the stack contents and all static data a
// run starts from are therefore identical in every worker and in a later fresh-process replay, so even the
// manifestation of undefined behaviour (which neighbour an out-of-bounds access hits) replays.
struct PlanBuf { uint32_t len; char text[(8 << 20) - 4]; };
static PlanBuf* g_planbuf = nullptr;
static int g_req_fd = -1, g_resp_fd = -1;   // worker side
static pid_t g_template_pid = -1;

static void template_main(int req_fd, int resp_fd, const char* bdir) {
  std::string bd = bdir;
  const char* ld = getenv("XV_LOCALE_DIR");
  setenv("LOCPATH", ld ? ld : (bd + "/../locale").c_str(), 1);
  symbols_load((bd + "/exe.sym").c_str(), bd.c_str());
  load_builtin_crystals((bd + "/Crystals.dat").c_str());
  g_tab_hash0 = tables_hash();
  g_tab_ranges0 = tables_range_hashes();
  tables_snapshot();
  cache_main_stack();
  // load every locale configuration once so that children find them in glibc's in-memory cache
  for (int cfg = 2; cfg >= 0; cfg--) apply_locale(cfg);
  signal(SIGPIPE, SIG_IGN);
  for (;;) {
    char c;
    ssize_t r = read(req_fd, &c, 1);
    if (r == 0) _exit(0);
    if (r < 0) { if (errno == EINTR) continue; _exit(0); }
    pid_t pid = fork();
    int st = 0;
    if (pid == 0) {
      if (g_planbuf->len >= 4 && !memcmp(g_planbuf->text, "noop", 4)) _exit(0);   // diagnostic: cost of an empty run
      close(req_fd);
      close(resp_fd);
      dup2(g_fd_out, 1);
      dup2(g_fd_err, 2);
      alarm(20);
      Plan p;
      std::string err;
      if (!plan_from_text(std::string(g_planbuf->text, g_planbuf->len), p, &err)) { fprintf(stderr, "xrlsim: bad plan: %s\n", err.c_str()); _exit(3); }
      child_run(p);
      SH->done = 1;
      _exit(0);
    }
    if (pid < 0) st = 3 << 8;
    else while (waitpid(pid, &st, 0) < 0 && errno == EINTR) {}
    if (write(resp_fd, &st, sizeof st) != (ssize_t)sizeof st) _exit(0);
  }
}

static bool spawn_template(const char* bdir) {
  int req[2], resp[2];
  if (pipe(req) != 0 || pipe(resp) != 0) return false;
  pid_t pid = fork();
  if (pid < 0) return false;
  if (pid == 0) {
    close(req[1]);
    close(resp[0]);
    template_main(req[0], resp[1], bdir);
    _exit(0);
  }
  close(req[0]);
  close(resp[1]);
  g_req_fd = req[1];
  g_resp_fd = resp[0];
  g_template_pid = pid;
  return true;
}

static std::string read_fd_all(int fd) {
  std::string s;
  off_t n = lseek(fd, 0, SEEK_END);
  if (n <= 0) return s;
  if (n > (1 << 20)) n = 1 << 20;
  s.resize(n);
  ssize_t r = pread(fd, &s[0], n, 0);
  if (r < 0) r = 0;
  s.resize(r);
  return s;
}

struct SanReport { bool found = false; std::string tool, kind, site; uintptr_t addr = ~(uintptr_t)0; bool near_null = false; };

static SanReport parse_report(const std::string& t, const char* cur_fn) {
  SanReport r;
  size_t a = t.find("ERROR: AddressSanitizer: ");
  size_t u = t.find("runtime error: ");
  size_t start = std::string::npos;
  if (a != std::string::npos && (u == std::string::npos || a < u)) {
    r.found = true; r.tool = "asan"; start = a;
    size_t k = a + strlen("ERROR: AddressSanitizer: ");
    size_t e = t.find_first_of(" \n", k);
    r.kind = t.substr(k, e - k);
    if (r.kind == "attempting") {
      size_t e2 = t.find_first_of("\n", k);
      std::string rest = t.substr(k, e2 - k);
      r.kind = rest.find("double-free") != std::string::npos ? "double-free" : "bad-free";
    }
    size_t ad = t.find("address 0x", k);
    if (ad != std::string::npos && ad < k + 200) r.addr = strtoull(t.c_str() + ad + 8, nullptr, 16);
    if (r.kind == "SEGV" && r.addr < 65536) r.near_null = true;
    if (t.find("Hint: address points to the zero page", k) != std::string::npos) r.near_null = true;
  } else if (u != std::string::npos) {
    r.found = true; r.tool = "ubsan"; start = u;
    size_t e = t.find('\n', u);
    std::string msg = t.substr(u + 15, e - u - 15);
    if (msg.find("null pointer") != std::string::npos) { r.kind = "null-deref"; r.near_null = true; }
    else if (msg.find("out of bounds") != std::string::npos) r.kind = "index-out-of-bounds";
    else if (msg.find("misaligned") != std::string::npos) r.kind = "misaligned-access";
    else if (msg.find("overflowed") != std::string::npos || msg.find("pointer index") != std::string::npos || msg.find("applying") != std::string::npos) r.kind = "pointer-overflow";
    else if (msg.find("insufficient space") != std::string::npos) r.kind = "object-size";
    else r.kind = "undefined";
    if (msg.find("offset to null pointer") != std::string::npos || msg.find("applying non-zero offset") != std::string::npos) r.near_null = r.near_null || msg.find("null") != std::string::npos;
  }
  if (!r.found) return r;
  // frames: "(…xrlsim+0xOFF)"
  size_t pos = start;
  r.site = cur_fn && *cur_fn ? cur_fn : "?";
  int nframes = 0;
  while ((pos = t.find("+0x", pos)) != std::string::npos && nframes < 64) {
    size_t close = t.find(')', pos);
    size_t open = t.rfind('(', pos);
    if (open != std::string::npos && close != std::string::npos && t.find("xrlsim", open) < pos) {
      uintptr_t off = strtoull(t.c_str() + pos + 1, nullptr, 16);
      const Sym* s = sym_lookup_off(off);
      nframes++;
      if (s && sym_is_libfunc(s->name) && s->name.rfind("xs_", 0) != 0) { r.site = s->name; break; }
    }
    pos += 3;
    size_t nl = t.find("\n\n", start);
    if (nl != std::string::npos && pos > nl && nframes > 0) break;  // only the first stack
  }
  return r;
}

static Outcome run_forked(const Plan& p, bool keep_log = false) {
  Outcome out;
  memset((void*)SH, 0, kSharedHdr);
  SH->log_hash = 1469598103934665603ULL;
  SH->stopped_op = -1;
  SR->ndirs = 0;
  SR->overflow = 0;
  if (ftruncate(g_fd_out, 0) != 0 || ftruncate(g_fd_err, 0) != 0) {}
  lseek(g_fd_out, 0, SEEK_SET);
  lseek(g_fd_err, 0, SEEK_SET);
  TT.forks++;
  {
    std::string txt = getenv("XRLSIM_NOOP") ? std::string("noop") : plan_to_text(p);
    if (txt.size() >= sizeof g_planbuf->text) { out.status = ST_INTERNAL; return out; }
    memcpy(g_planbuf->text, txt.data(), txt.size());
    g_planbuf->len = (uint32_t)txt.size();
  }
  int st = 0;
  {
    char c = 'r';
    if (write(g_req_fd, &c, 1) != 1) { fprintf(stderr, "xrlsim: template process is gone\n"); exit(2); }
    size_t got = 0;
    while (got < sizeof st) {
      ssize_t r = read(g_resp_fd, (char*)&st + got, sizeof st - got);
      if (r <= 0) { if (r < 0 && errno == EINTR) continue; fprintf(stderr, "xrlsim: template process is gone\n"); exit(2); }
      got += (size_t)r;
    }
  }
  out.log_hash = SH->log_hash;
  out.events = SH->events;
  out.stopped = SH->stopped_op >= 0;
  for (int t = 0; t < MAXTASK; t++) {
    out.res[t].assign(SH->res[t], SH->res[t] + std::min<uint32_t>(SH->nresults[t], MAXOPS));
    out.task_events[t] = SH->task_events[t];
  }
  out.dirs.assign(SR->dirs, SR->dirs + SR->ndirs);
  out.dirs_overflow = SR->overflow != 0;
  if (keep_log) out.log.assign(SH->log, SH->log_len);
  for (int i = 0; i < SH->nviol && i < MAXVIOL; i++) {
    Sig s;
    s.cls = SH->viol[i].cls; s.site = SH->viol[i].site; s.detail = SH->viol[i].detail; s.task = SH->viol[i].task; s.op = SH->viol[i].op;
    out.sigs.push_back(s);
  }
  bool exited_clean = WIFEXITED(st) && WEXITSTATUS(st) == 0;
  if (!exited_clean) {
    out.stderr_text = read_fd_all(g_fd_err);
    if (WIFSIGNALED(st) && WTERMSIG(st) == SIGALRM) { out.status = ST_WATCHDOG; return out; }
    SanReport r = parse_report(out.stderr_text, SH->cur_fn);
    if (WIFEXITED(st) && WEXITSTATUS(st) == 3) { out.status = ST_INTERNAL; return out; }
    if (r.found) {
      if (SH->cur_fault_fired && r.near_null) {
        out.status = ST_OOM_UNHANDLED;
        out.oom_site = r.site;
        // violations recorded before the fault are still judged
        if (!out.sigs.empty()) out.status = ST_VIOL;
        return out;
      }
      Sig s;
      s.cls = r.tool + ":" + r.kind; s.site = r.site; s.task = SH->cur_task; s.op = SH->cur_op;
      size_t k = out.stderr_text.find(r.tool == "asan" ? "ERROR: AddressSanitizer" : "runtime error");
      s.detail = out.stderr_text.substr(k, std::min<size_t>(300, out.stderr_text.find('\n', k) - k));
      if (SH->cur_fault_fired) s.detail += " [after an injected allocation failure]";
      out.sigs.push_back(s);
    } else {
      Sig s;
      char b[160];
      snprintf(b, sizeof b, "child died: %s %d during %s", WIFSIGNALED(st) ? "signal" : "exit", WIFSIGNALED(st) ? WTERMSIG(st) : WEXITSTATUS(st), SH->cur_fn);
      if (SH->cur_fault_fired && WIFSIGNALED(st) && WTERMSIG(st) == SIGSEGV) { out.status = ST_OOM_UNHANDLED; out.oom_site = SH->cur_fn; return out; }
      s.cls = "crash"; s.site = SH->cur_fn; s.detail = b; s.task = SH->cur_task; s.op = SH->cur_op;
      out.sigs.push_back(s);
    }
  } else if (!SH->done && out.sigs.empty()) {
    // child_exit(0) is only used after recording a violation
    Sig s; s.cls = "internal"; s.site = "child"; s.detail = "child exited early without a verdict";
    out.sigs.push_back(s);
  }
  out.status = out.sigs.empty() ? ST_OK : ST_VIOL;
  return out;
}

static void accumulate_counters() {
  TT.events += SH->events; TT.allocs += SH->allocs; TT.seam_calls += SH->seam_calls;
  TT.preemptions += SH->preemptions; TT.switches += SH->switches; TT.ops += SH->ops_done; TT.ops_alloc += SH->ops_alloc;
  for (int i = 0; i < FK_N; i++) TT.faults[i] += SH->faults[i];
  for (int i = 0; i < PR_N; i++) TT.probes[i] += SH->probes[i];
  TT.unmodelled_sync += SH->unmodelled_sync;
}

// ------------------------------------------------------------------ child side
namespace xs { extern bool g_monitor_tables; }

static void run_single_task(const Plan& p, ExecHooks hooks) {
  Exec ex;
  ex.task = 0;
  ex.hooks = hooks;
  if (!p.tasks.empty()) {
    caller_locale_install(p.tasks[0].tloc);
    if (hooks.purity_monitors) procstate_capture();
    for (auto& op : p.tasks[0].ops) ex.run_op(op);
  }
  ex.release_all();
  op_begin(0, -1, OK_FREE, "(thread exit)");
  task_thread_exit();
  op_end();
  if (hooks.purity_monitors) procstate_final();
  caller_locale_remove();
  std::vector<Exec*> v{&ex};
  op_begin(0, -1, OK_FREE, "(end of run)");
  final_leak_check(v, hooks.leak_scope);
  op_end();
}

static void run_threads(const Plan& p) {
  int n = (int)p.tasks.size();
  Exec setup;
  setup.task = MAXTASK - 1;
  for (auto& op : p.setup) setup.run_op(op);
  for (auto& kv : setup.handles) kv.second.shared = true;
  std::vector<Exec*> ex;
  for (int t = 0; t < n; t++) {
    Exec* e = new Exec();
    e->task = t;
    e->shared = &setup.handles;
    ex.push_back(e);
  }
  std::vector<std::function<void()>> bodies;
  for (int t = 0; t < n; t++)
    bodies.push_back([&, t]() {
      caller_locale_install(p.tasks[t].tloc);
      for (auto& op : p.tasks[t].ops) ex[t]->run_op(op);
      ex[t]->release_all();
      op_begin(t, -1, OK_FREE, "(thread exit)");
      task_thread_exit();
      op_end();
      caller_locale_remove();
    });
  if (p.sched.policy == SP_SERIAL) {
    TaskCtx ctx[MAXTASK];
    TaskCtx* saved = t_task;
    for (int t = 0; t < n; t++) {
      ctx[t] = TaskCtx();
      ctx[t].stack_lo = saved->stack_lo; ctx[t].stack_hi = saved->stack_hi;
      ctx[t].id = t;
      ctx[t].events = 0;
      t_task = &ctx[t];
      bodies[t]();
      SH->task_events[t] = ctx[t].events;
      logf("T t%d finished events=%llu", t, (unsigned long long)ctx[t].events);
    }
    t_task = saved;
  } else {
    std::vector<int> waves;
    for (auto& t : p.tasks) waves.push_back(t.wave);
    run_tasks(p.sched, bodies, waves);
  }
  for (auto& kv : setup.handles) kv.second.shared = false;
  setup.release_all();
  ex.push_back(&setup);
  op_begin(0, -1, OK_FREE, "(end of run)");
  final_leak_check(ex, LEAKS_NONE);
  op_end();
}

// Undefined reads of dead stack slots must not depend on what the zygote happened to call before the fork:
// give every child the same stack contents below its current frame.
__attribute__((noinline, no_sanitize("address"))) static void scrub_stack() {
  volatile char pad[192 * 1024];
  for (size_t i = 0; i < sizeof pad; i += 1) pad[i] = (char)0xa5;
}

static void child_run(const Plan& p) {
  scrub_stack();
  run_reset_child();
  reuse_reset(p.reuse != 0);
  g_fill_byte = p.fill & 0xff;
  g_sim_entropy = splitmix64(plan_hash(p) ^ 0x51ed270b1ull);
  if (!apply_locale(p.locale)) { fprintf(stderr, "xrlsim: locale configuration %d unavailable\n", p.locale); _exit(3); }
  logf("PLAN engine=%s batch=%s seed=%llu runseed=%llu locale=%s", p.engine.c_str(), p.batch.c_str(), (unsigned long long)p.seed,
       (unsigned long long)p.runseed, locale_name(p.locale));
  ExecHooks h;
  h.errno_mode = p.errno_mode != 0;
  g_monitor_tables = false;
  if (p.engine == "mem") { run_single_task(p, h); }
  else if (p.engine == "crystal") { h.deep_crystal_checks = true; h.leak_scope = LEAKS_CRYSTAL_OPS; run_single_task(p, h); }
  else if (p.engine == "purity") {
    h.purity_monitors = true;
    h.leak_scope = LEAKS_NONE;
    g_monitor_tables = true;
    run_single_task(p, h);
    uint64_t th = tables_hash();
    if (th != g_tab_hash0) {
      std::string w = tables_first_diff(g_tab_ranges0);
      violation("table-modified", w.c_str(), "data tables differ from their pristine contents at the end of the run");
    }
    const char* loc = setlocale(LC_ALL, nullptr);
    if (!loc || g_locale_all != loc) violation("global-state", "(end of run)", "process locale is '%s', was '%s'", loc ? loc : "", g_locale_all.c_str());
  }
  else if (p.engine == "threads") { run_threads(p); }
  else { fprintf(stderr, "xrlsim: unknown engine %s\n", p.engine.c_str()); _exit(3); }
  logf("END events=%llu", (unsigned long long)SH->events);
}

// ------------------------------------------------------------------ plan generation per engine/batch
static uint64_t tag_of(const std::string& s) { return hash_str(s.c_str()); }

// the caller's own thread locale: most programs never call uselocale(); those that do hand the library a thread whose
// locale is an object the library does not own.  Only combinations that equal a process configuration (eff_locale).
static int pick_tloc(uint64_t runseed, int task, int locale, bool allow_xx) {
  uint64_t x = splitmix64(runseed ^ hash_str("tloc") ^ (uint64_t)(task + 1) * 0x9e3779b97f4a7c15ull);
  if (x % 100 >= 30) return TLOC_NONE;
  int k = (int)((x >> 8) % 3);
  if (k == 0) return TLOC_DUP;
  if (k == 1) return TLOC_C;
  return allow_xx && locale != LOC_CUTF8 ? TLOC_XX : TLOC_DUP;
}
static int pick_locale(Rng& r, bool allow_xx) {
  int c = r.range(0, 99);
  if (c < 50) return LOC_C;
  if (c < 75 || !allow_xx) return LOC_CUTF8;
  return LOC_XX;
}

static std::vector<Op> g_catalogue;   // purity probes
static void build_catalogue(uint64_t master) {
  Rng r(master ^ tag_of("catalogue"));
  g_catalogue.clear();
  for (int i = 0; i < O.catalogue; i++) {
    Op o = gen_self_contained_op(r, 0, true);
    o.probe = 1;
    o.keep = 0;
    o.fail = 0;
    g_catalogue.push_back(o);
  }
}

static void apply_quarantine(std::vector<Op>& ops) {
  // switches named in --avoid drop op classes covered by an OPEN known finding, so that a defect that is
  // already recorded does not end every run before anything else is explored
  std::vector<Op> out;
  for (auto& o : ops) {
    if (avoid("readfile") && o.kind == OK_CA_READ) continue;
    if (avoid("fill") && o.kind == OK_CA_FILL) continue;
    if (avoid("crystal_oob_z") && (o.kind == OK_CR_MATH)) { Op q = o; q.cs.zclass = 0; if (q.i[3]) continue; out.push_back(q); continue; }
    out.push_back(o);
  }
  ops.swap(out);
}

static long g_run_index = -1;   // index of the run inside its batch (set by the batch loop)
static Plan gen_plan(uint64_t runseed) {
  Plan p;
  p.engine = O.engine;
  p.batch = O.batch;
  p.data = O.data;
  p.seed = O.seed;
  p.runseed = runseed;
  Rng rp(splitmix64(runseed ^ tag_of("plan")));
  Rng rf(splitmix64(runseed ^ tag_of("fault")));
  p.reuse = splitmix64(runseed ^ tag_of("reuse")) % 4 == 0 ? 1 : 0;   // a quarter of all runs: allocator reuse mode
  Rng rs(splitmix64(runseed ^ tag_of("sched")));
  (void)rf;
  GenCfg cfg;
  cfg.max_ops = O.max_ops;
  p.tasks.push_back(TaskPlan());
  if (O.engine == "mem") {
    p.locale = pick_locale(rp, false);
    p.tasks[0].tloc = pick_tloc(runseed, 0, p.locale, false);
    p.perturb = O.data == "O0" || splitmix64(runseed ^ tag_of("perturb")) % 4 == 0 ? 1 : 0;   // build configuration O0 exists for the partner runs
    cfg.alloc_faults = cfg.file_faults = O.batch == "hist_faults";
    cfg.min_ops = 1;
    cfg.max_ops = rp.chance(1, 3) ? std::min(8, O.max_ops) : O.max_ops;
    cfg.w_query = 25; cfg.w_alloc = 50; cfg.w_crystal = 25;
    if (rp.chance(1, 8)) set_focus(rp, cfg);
    gen_history(rp, cfg, p.tasks[0].ops, p.next_id);
  } else if (O.engine == "crystal") {
    p.locale = pick_locale(rp, false);
    p.tasks[0].tloc = pick_tloc(runseed, 0, p.locale, false);
    cfg.crystal_focus = true;
    cfg.alloc_faults = cfg.file_faults = O.batch == "hist_faults";
    cfg.max_ops = rp.chance(1, 3) ? std::min(10, O.max_ops) : O.max_ops;
    cfg.w_query = 3; cfg.w_alloc = 7; cfg.w_crystal = 90;
    gen_history(rp, cfg, p.tasks[0].ops, p.next_id);
    if (O.batch == "fill") {
      Op f; f.id = p.next_id++; f.kind = OK_CA_FILL; f.h[0] = -2; f.i[0] = rp.range(470, 480);
      f.cs = CrystalSpec(); f.cs.name = "fill"; f.cs.cseed = rp.next() & 0xffff; f.cs.natoms = 1;
      p.tasks[0].ops.insert(p.tasks[0].ops.begin() + rp.below(p.tasks[0].ops.size() + 1), f);
    }
  } else if (O.engine == "purity") {
    p.locale = pick_locale(rp, true);
    p.tasks[0].tloc = pick_tloc(runseed, 0, p.locale, true);
    p.errno_mode = splitmix64(runseed ^ tag_of("errno")) % 3 == 0 ? 1 : 0;
    auto& ops = p.tasks[0].ops;
    if (O.batch == "long") {
      // thousands of calls of one to three functions in one process, with arguments that repeat: state that only
      // goes wrong after many calls of the same function (a cache that evicts, wraps or is "warm" at the N-th
      // entry) cannot show in a 200-op history over 130 entry points
      int k = O.tier == "thorough" ? rp.range(2500, 3900) : rp.range(1500, 3000);
      int nf = rp.chance(3, 5) ? 1 : rp.range(2, 3), focus[3];
      for (int j = 0; j < nf; j++) focus[j] = (int)rp.below(g_nqueries);
      // the first focus function rotates through all entry points with the run index instead of being drawn: a defect
      // that needs hundreds of calls of ONE function is otherwise reached by two or three runs of a quick check, or none
      if (g_run_index >= 0) focus[0] = (int)(((uint64_t)g_run_index * 37u + (uint64_t)(O.seed % 131)) % (uint64_t)g_nqueries);
      if (splitmix64(runseed ^ tag_of("reuse-long")) % 2 == 0) p.reuse = 1;   // caller buffers and heap blocks repeat their addresses in half of these
      for (int i = 0; i < k; i++) {
        Op o = gen_query_op_for(rp, p.next_id++, focus[rp.below(nf)]);
        o.keep = 0;
        o.selfc = 1;
        o.probe = (i >= k - 8 || rp.chance(1, 200)) ? 1 : 0;   // few fresh-process references (computed on demand); oracle 1b covers every op
        ops.push_back(o);
        if (rp.chance(1, 10)) { Op e = o; e.id = p.next_id++; e.probe = 0; ops.push_back(e); }   // echo: the very same call again at once
      }
    } else if (O.batch == "perm") {
      int k = std::min<int>(O.max_ops * 4, (int)g_catalogue.size());
      if (k > 300) k = 300;
      size_t base = rp.below(g_catalogue.size());
      std::vector<Op> sel;
      for (int i = 0; i < k; i++) sel.push_back(g_catalogue[(base + (size_t)i * 7919) % g_catalogue.size()]);
      for (size_t i = sel.size(); i > 1; i--) std::swap(sel[i - 1], sel[rp.below(i)]);
      for (auto& o : sel) {
        o.id = p.next_id++;
        ops.push_back(o);
        if (rp.chance(1, 10)) { o.id = p.next_id++; ops.push_back(o); }   // echo (see gen_history)
        if (rp.chance(1, 25)) { Op x; x.id = p.next_id++; x.kind = OK_INIT; ops.push_back(x); }
        if (rp.chance(1, 40)) { Op x; x.id = p.next_id++; x.kind = OK_DEPRECATED; x.fn = "GetExitStatus"; ops.push_back(x); }
      }
    } else {
      cfg.alloc_faults = O.batch == "hist_faults";
      cfg.file_faults = true;
      cfg.allow_builtin_mod = false;   // catalogue probes assume the shipped built-in collection
      cfg.w_query = 30; cfg.w_alloc = 45; cfg.w_crystal = 25;
      cfg.max_ops = std::min(O.max_ops, 200);
      if (rp.chance(1, 8)) set_focus(rp, cfg);
      std::vector<Op> hist;
      gen_history(rp, cfg, hist, p.next_id);
      for (auto& o : hist) {
        ops.push_back(o);
        if (rp.chance(1, 3)) {
          Op q = g_catalogue[rp.below(g_catalogue.size())]; q.id = p.next_id++; ops.push_back(q);
          if (rp.chance(1, 6)) { q.id = p.next_id++; ops.push_back(q); }   // echo (see gen_history)
        }
      }
      int tail = rp.range(5, 25);
      for (int i = 0; i < tail; i++) { Op q = g_catalogue[rp.below(g_catalogue.size())]; q.id = p.next_id++; ops.push_back(q); }
    }
  } else if (O.engine == "threads") {
    p.locale = pick_locale(rp, true);
    p.tasks.clear();
    int c = rp.range(0, 99);
    int nt = c < 35 ? 2 : c < 55 ? 3 : c < 70 ? 4 : c < 85 ? rp.range(5, 8) : rp.range(9, 16);   // the statement speaks of 8-16 threads; two actors find most bugs
    // shared read-only objects created before the tasks start
    {
      Op a; a.id = p.next_id++; a.kind = OK_CA_INIT; a.i[0] = rp.range(2, 6); p.setup.push_back(a);
      std::vector<std::string> pool{"ShA", "ShB", "ShC", "ShD"};
      int na = rp.range(1, 4);
      for (int i = 0; i < na; i++) {
        Op x; x.id = p.next_id++; x.kind = OK_CA_ADD; x.h[0] = a.id; x.cs = gen_crystal_spec(rp, pool); x.cs.name = pool[i]; x.cs.cellclass %= 2;
        if (x.cs.natoms == 0) x.cs.natoms = 2;
        p.setup.push_back(x);
      }
      Op g; g.id = p.next_id++; g.kind = OK_CA_GET; g.h[0] = -2; g.s = "Si"; p.setup.push_back(g);
      Op g2; g2.id = p.next_id++; g2.kind = OK_CA_GET; g2.h[0] = a.id; g2.s = "ShA"; p.setup.push_back(g2);
      Op cp; cp.id = p.next_id++; cp.kind = OK_PARSE; cp.s = "Ca5(PO4)3F"; p.setup.push_back(cp);
    }
    cfg.threadsafe_only = true;
    cfg.allow_builtin_mod = false;
    cfg.alloc_faults = O.batch == "sched_faults";
    cfg.file_faults = true;
    cfg.w_query = 40; cfg.w_alloc = 40; cfg.w_crystal = 20;
    if (rp.chance(1, 2)) { set_focus(rp, cfg); cfg.focus_strength = 1; }   // all tasks of the run concentrate on the same few entry points
    int maxo = nt <= 4 ? std::min(O.max_ops, 30) : std::max(3, std::min(O.max_ops, 120 / nt));
    for (int t = 0; t < nt; t++) {
      TaskPlan tp;
      cfg.min_ops = 1; cfg.max_ops = maxo;
      std::vector<Op> ops = p.setup;   // prefix convention: lets the generator see the shared handles
      size_t skip = ops.size();
      gen_history(rp, cfg, ops, p.next_id);
      tp.ops.assign(ops.begin() + skip, ops.end());
      tp.tloc = pick_tloc(runseed, t, p.locale, true);
      p.tasks.push_back(tp);
    }
    if (nt >= 3 && splitmix64(runseed ^ tag_of("waves")) % 4 == 0) {
      // thread lifecycle: a later wave of tasks starts on fresh pthreads after the earlier ones have exited
      int cut = 1 + (int)(splitmix64(runseed ^ tag_of("wavecut")) % (uint64_t)(nt - 2)) + 1;   // at least two tasks in wave 0
      if (cut > nt - 1) cut = nt - 1;
      for (int t = cut; t < nt; t++) p.tasks[t].wave = 1;
    }
    int sc = rs.range(0, 99);
    if (sc < 40) { p.sched.policy = SP_TARGETED; p.sched.param = rs.chance(1, 2) ? 2 : 4; }
    else if (sc < 75) { p.sched.policy = SP_RANDOM; static const int ps[] = {4, 16, 64, 256, 1024}; p.sched.param = ps[rs.below(5)]; }
    else { p.sched.policy = SP_PCT; p.sched.param = rs.range(1, 3); }
    p.sched.seed = rs.next();
  }
  if (!O.avoid.empty()) {
    apply_quarantine(p.setup);
    for (auto& t : p.tasks) apply_quarantine(t.ops);
  }
  return p;
}

// ------------------------------------------------------------------ evaluation per engine (parent side)
static std::unordered_map<std::string, OpResult> g_first_cache;   // purity: first-call-in-fresh-process results
static uint64_t g_first_runs = 0;

// The locale a call sees is the calling thread's: a caller-installed thread locale (tloc) over process locale P is,
// for the library, the same environment as the process configuration it is equal to -- so the references of the
// `first` batch (tloc 0) serve.  -1: no process configuration equals it (the reference is then taken in the very
// same environment, on demand).
static int eff_locale(int locale, int tloc) {
  if (tloc == TLOC_NONE || tloc == TLOC_DUP) return locale;
  if (tloc == TLOC_XX) return locale == LOC_C || locale == LOC_XX ? LOC_XX : -1;
  if (tloc == TLOC_C) return locale == LOC_XX ? LOC_C : locale;
  return -1;
}
static std::string probe_key(const Op& o, int locale, int tloc = 0) {
  Op q = o;
  q.id = 0;
  char b[24];
  int e = eff_locale(locale, tloc);
  if (e >= 0) snprintf(b, sizeof b, "L%d ", e); else snprintf(b, sizeof b, "L%dT%d ", locale, tloc);
  return b + op_to_text(q);
}

static bool nontrivial_plan(const Plan& p, const Outcome& o);

static OpResult first_call(const Op& op, int locale, uint64_t seed, int tloc = 0) {
  Plan single;
  int e = eff_locale(locale, tloc);
  single.engine = "purity"; single.batch = "first"; single.seed = seed; single.runseed = 0; single.locale = e >= 0 ? e : locale;
  single.tasks.push_back(TaskPlan());
  if (e < 0) single.tasks[0].tloc = tloc;
  Op q = op; q.id = 1;
  single.tasks[0].ops.push_back(q);
  Outcome f = run_forked(single);
  g_first_runs++;
  OpResult r{0, 0, 0, 0, 0, 0};
  if (f.status == ST_OK && !f.res[0].empty()) r = f.res[0][0];
  else r.done = 0;   // the probe itself misbehaves alone: reported by the other engines, not comparable here
  return r;
}

static Outcome evaluate(const Plan& p, bool count = true, bool keep_log = false) {
  if (p.engine == "purity") {
    // oracle 1: every probe's result equals its first-call-in-a-fresh-process result
    for (auto& op : p.tasks[0].ops) {
      if (!op.probe) continue;
      std::string key = probe_key(op, p.locale, p.tasks[0].tloc);
      if (!g_first_cache.count(key)) g_first_cache[key] = first_call(op, p.locale, p.seed, p.tasks[0].tloc);
      std::string keyC = probe_key(op, LOC_C, 0);
      if (!g_first_cache.count(keyC)) g_first_cache[keyC] = first_call(op, LOC_C, p.seed, 0);
    }
    Outcome o = run_forked(p, keep_log);
    if (count) accumulate_counters();
    size_t pos = 0;
    for (auto& op : p.tasks[0].ops) {
      if (pos >= o.res[0].size()) break;
      const OpResult& got = o.res[0][pos++];
      if (!op.probe || !got.done) continue;
      const OpResult& want = g_first_cache[probe_key(op, p.locale, p.tasks[0].tloc)];
      if (!want.done) continue;
      if (got.digest == want.digest && got.failed == want.failed) {
        // independent of the history.  "A function of its arguments alone" also means: not of the locale the caller
        // happens to run under -- the same call as first call of a fresh process under the plain C locale
        const OpResult& wantC = g_first_cache[probe_key(op, LOC_C, 0)];
        if (wantC.done && (got.digest != wantC.digest || got.failed != wantC.failed)) {
          Sig s;
          s.cls = "environment-dependence";
          s.site = (op.kind == OK_Q || op.kind == OK_CR_MATH) ? op.fn : kOpNames[op.kind];
          char b[360];
          snprintf(b, sizeof b, "op %d (%s) digest %016llx failed=%d in locale configuration %s%s, but %016llx failed=%d under the C locale (both as first call of a fresh process)",
                   op.id, op_to_text(op).substr(0, 120).c_str(), (unsigned long long)got.digest, got.failed, locale_name(p.locale),
                   p.tasks[0].tloc ? " + caller's thread locale" : "", (unsigned long long)wantC.digest, wantC.failed);
          s.detail = b; s.op = op.id;
          bool dup = false;
          for (auto& x : o.sigs) dup = dup || x.key() == s.key();
          if (!dup) o.sigs.push_back(s);
        }
        continue;
      }
      {
        Sig s;
        s.cls = "history-dependence";
        s.site = (op.kind == OK_Q || op.kind == OK_CR_MATH) ? op.fn : kOpNames[op.kind];
        char b[300];
        snprintf(b, sizeof b, "op %d (%s) digest %016llx failed=%d, but as first call in a fresh process %016llx failed=%d", op.id,
                 op_to_text(op).substr(0, 120).c_str(), (unsigned long long)got.digest, got.failed, (unsigned long long)want.digest, want.failed);
        s.detail = b; s.op = op.id;
        bool dup = false;
        for (auto& x : o.sigs) dup = dup || x.key() == s.key();
        if (!dup) o.sigs.push_back(s);
      }
    }
    // oracle 1b: within one process, the same self-contained call must give the same result every time
    {
      std::unordered_map<std::string, std::pair<uint64_t, int>> seen;   // key -> (digest, failed)
      size_t pos2 = 0;
      for (auto& op : p.tasks[0].ops) {
        if (pos2 >= o.res[0].size()) break;
        const OpResult& got = o.res[0][pos2++];
        if (!(op.selfc || op.kind == OK_Q || op.kind == OK_S2A || op.kind == OK_ATOMFAC) || op.fail || !got.done || got.fault_fired) continue;
        if (op.kind == OK_DEPRECATED || op.kind == OK_INIT) continue;
        Op k = op; k.id = 0; k.probe = 0;
        std::string key = op_to_text(k);
        auto it = seen.find(key);
        if (it == seen.end()) { seen[key] = {got.digest, got.failed}; continue; }
        if (it->second.first != got.digest || it->second.second != got.failed) {
          Sig s;
          s.cls = "history-dependence";
          s.site = (op.kind == OK_Q || op.kind == OK_CR_MATH) ? op.fn : kOpNames[op.kind];
          char b[300];
          snprintf(b, sizeof b, "op %d (%s) gave digest %016llx failed=%d, the same call earlier in this process gave %016llx failed=%d", op.id,
                   key.substr(0, 120).c_str(), (unsigned long long)got.digest, got.failed, (unsigned long long)it->second.first, it->second.second);
          s.detail = b; s.op = op.id;
          bool dup = false;
          for (auto& x : o.sigs) dup = dup || x.key() == s.key();
          if (!dup) o.sigs.push_back(s);
          break;
        }
      }
    }
    if (!o.sigs.empty() && o.status == ST_OK) o.status = ST_VIOL;
    return o;
  }
  if (p.engine == "threads" && p.sched.policy != SP_SERIAL) {
    Plan ser = p;
    ser.sched = SchedCfg();
    ser.sched.policy = SP_SERIAL;
    Outcome s = run_forked(ser);
    if (count) accumulate_counters();
    bool serial_completed = SH->done != 0;
    std::vector<Sig> serial_sigs;
    if (s.status != ST_OK) {
      // a defect that shows without any concurrency belongs to C04/C14/C16; report it as such, flagged serial
      for (auto& x : s.sigs) x.cls = "serial:" + x.cls;
      if (s.status != ST_VIOL || !serial_completed) return s;
      // the serial run finished (e.g. it only left memory behind): its results are still a valid reference,
      // so the schedule search goes on and a concurrency defect behind the serial one is not hidden
      serial_sigs = s.sigs;
    }
    Plan con = p;
    con.sched.task_events_hint.assign(s.task_events, s.task_events + p.tasks.size());
    Outcome c = run_forked(con, keep_log);
    if (count) accumulate_counters();
    if (count) TT.sched_hashes.insert(SH->sched_hash);
    if (c.status == ST_OOM_UNHANDLED || c.status == ST_WATCHDOG || c.status == ST_INTERNAL) return c;
    if (!c.stopped && !s.stopped) {
      for (size_t t = 0; t < p.tasks.size(); t++) {
        size_t n = std::min(s.res[t].size(), c.res[t].size());
        if (s.res[t].size() != c.res[t].size() && c.status == ST_OK) {
          Sig g; g.cls = "result-mismatch"; g.site = "(op count)"; g.detail = "task executed a different number of ops than serially"; g.task = (int)t;
          c.sigs.push_back(g);
        }
        for (size_t i = 0; i < n; i++) {
          const OpResult& a = s.res[t][i];
          const OpResult& b = c.res[t][i];
          if (a.fault_fired || b.fault_fired) continue;   // degraded results after an injected fault are not compared
          if (a.digest != b.digest || a.failed != b.failed) {
            const Op& op = p.tasks[t].ops[std::min(i, p.tasks[t].ops.size() - 1)];
            Sig g;
            g.cls = "result-mismatch";
            g.site = i < p.tasks[t].ops.size() ? (op.kind == OK_Q || op.kind == OK_CR_MATH ? op.fn : kOpNames[op.kind]) : "(release)";
            char bb[300];
            snprintf(bb, sizeof bb, "task %zu op #%zu: concurrent digest %016llx failed=%d, serial %016llx failed=%d", t, i, (unsigned long long)b.digest,
                     b.failed, (unsigned long long)a.digest, a.failed);
            g.detail = bb; g.task = (int)t; g.op = i < p.tasks[t].ops.size() ? op.id : -1;
            bool dup = false;
            for (auto& x : c.sigs) dup = dup || x.key() == g.key();
            if (!dup) c.sigs.push_back(g);
          }
        }
      }
    }
    for (auto& x : serial_sigs) {
      bool dup = false;
      for (auto& y : c.sigs) dup = dup || y.key() == x.key() || ("serial:" + y.key()) == x.key();
      if (!dup) c.sigs.push_back(x);
    }
    // the concurrent run repeats what the serial run already showed (same leak): keep only the serial-flagged copy
    if (!serial_sigs.empty()) {
      std::vector<Sig> keep;
      for (auto& y : c.sigs) {
        bool shadow = false;
        for (auto& x : serial_sigs) shadow = shadow || ("serial:" + y.key()) == x.key();
        if (!shadow) keep.push_back(y);
      }
      c.sigs.swap(keep);
    }
    if (!c.sigs.empty() && c.status == ST_OK) c.status = ST_VIOL;
    return c;
  }
  Outcome o = run_forked(p, keep_log);
  if (count) accumulate_counters();
  if (p.engine == "mem" && p.perturb && !p.fill && o.status == ST_OK && !o.stopped) {
    // perturbation partner: the same plan with different contents of fresh heap blocks and dead stack slots.  A result
    // (or a sanitizer report) that changes with them was computed from memory the library never initialised.
    Plan q = p;
    q.fill = 0x3c;
    Outcome o2 = run_forked(q);
    if (count) { accumulate_counters(); TT.perturb_runs++; }
    if (o2.status == ST_VIOL) {
      for (auto s2 : o2.sigs) { s2.detail += " [only when fresh memory holds 0x3c instead of 0xbe: uninitialised value used]"; o.sigs.push_back(s2); }
    } else if (o2.status == ST_OK && !o2.stopped) {
      size_t n = std::min(o.res[0].size(), o2.res[0].size());
      for (size_t i = 0; i < n; i++) {
        const OpResult& a = o.res[0][i];
        const OpResult& b = o2.res[0][i];
        if (!a.done || !b.done || a.fault_fired || b.fault_fired) continue;
        if (a.digest == b.digest && a.failed == b.failed) continue;
        const Op& op = p.tasks[0].ops[std::min(i, p.tasks[0].ops.size() - 1)];
        Sig g;
        g.cls = "uninitialised-value";
        g.site = i < p.tasks[0].ops.size() ? (op.kind == OK_Q || op.kind == OK_CR_MATH || op.kind == OK_MISC ? op.fn : kOpNames[op.kind]) : "(release)";
        char bb[300];
        snprintf(bb, sizeof bb, "op #%zu: digest %016llx failed=%d, but %016llx failed=%d when fresh heap/stack memory holds 0x3c instead of 0xbe", i,
                 (unsigned long long)a.digest, a.failed, (unsigned long long)b.digest, b.failed);
        g.detail = bb; g.op = i < p.tasks[0].ops.size() ? op.id : -1;
        bool dup = false;
        for (auto& x : o.sigs) dup = dup || x.key() == g.key();
        if (!dup) o.sigs.push_back(g);
        break;   // later ops may only differ because of this one
      }
    }
    if (!o.sigs.empty()) o.status = ST_VIOL;
  }
  return o;
}

// ------------------------------------------------------------------ minimisation (DESIGN §2.8)
static int g_shrink_runs = 0;
static double g_shrink_deadline = 0;      // wall-clock cap for one minimisation (bounds the check's run time only;
static double g_gate_time_total = 0;      //  every accepted candidate is still verified by deterministic re-execution)
static bool still_fails(const Plan& p, const std::string& key) {
  if (g_shrink_deadline > 0 && now_s() > g_shrink_deadline) return false;
  g_shrink_runs++;
  Outcome o = evaluate(p, false);
  return o.has(key);
}

static bool shrink_ops(Plan& p, std::vector<Op> Plan::*, const std::string&) { return false; }

static void shrink_list(Plan& p, std::vector<Op>& ops, const std::string& key, int budget) {
  size_t chunk = ops.size() / 2;
  while (chunk >= 1 && g_shrink_runs < budget) {
    bool any = false;
    for (size_t i = 0; i + chunk <= ops.size() && g_shrink_runs < budget;) {
      std::vector<Op> saved = ops;
      ops.erase(ops.begin() + i, ops.begin() + i + chunk);
      if (still_fails(p, key)) { any = true; }
      else { ops = saved; i += chunk; }
    }
    if (!any || chunk == 1) { if (chunk == 1 && !any) break; }
    chunk = chunk > 1 ? chunk / 2 : (any ? 1 : 0);
    if (chunk == 0) break;
  }
}

static void simplify_op(Plan& p, Op& o, const std::string& key, int budget) {
  auto attempt = [&](std::function<void(Op&)> f) {
    if (g_shrink_runs >= budget) return;
    Op saved = o;
    f(o);
    if (op_to_text(saved) == op_to_text(o)) return;
    if (!still_fails(p, key)) o = saved;
  };
  if (o.fail) attempt([](Op& x) { x.fail = 0; });
  if (o.kind == OK_CA_READ) {
    attempt([](Op& x) { x.fs.chunk = 0; });
    attempt([](Op& x) { x.fs.eio_at = -1; });
    attempt([](Op& x) { x.fs.trunc_at = -1; });
    attempt([](Op& x) { x.fs.unseekable = false; });
    attempt([](Op& x) { x.fs.open_errno = 0; });
    attempt([](Op& x) { x.fs.mut = FM_NONE; });
    while (o.fs.crystals.size() > 0 && g_shrink_runs < budget) {
      size_t before = o.fs.crystals.size();
      attempt([](Op& x) { x.fs.crystals.pop_back(); });
      if (o.fs.crystals.size() == before) break;
    }
    for (size_t i = 0; i < o.fs.crystals.size(); i++) attempt([i](Op& x) { if (x.fs.crystals[i].natoms > 1) x.fs.crystals[i].natoms = 1; });
  }
  if (o.kind == OK_CA_ADD || o.kind == OK_CR_COPY || o.kind == OK_CR_MATH || o.kind == OK_CA_FILL) {
    attempt([](Op& x) { if (x.cs.natoms > 1) x.cs.natoms = 1; });
    attempt([](Op& x) { x.cs.cellclass = 0; });
  }
  if (o.kind == OK_CA_FILL) {
    for (int tries = 0; tries < 10 && o.i[0] > 1; tries++) {
      int before = o.i[0];
      attempt([](Op& x) { x.i[0] = x.i[0] / 2; });
      if (o.i[0] == before) { attempt([](Op& x) { x.i[0] = x.i[0] - 1; }); if (o.i[0] == before) break; }
    }
  }
  if (o.s.size() > 1 && o.kind != OK_CA_GET) {
    for (int tries = 0; tries < 8 && o.s.size() > 1; tries++) {
      size_t before = o.s.size();
      attempt([](Op& x) { x.s = x.s.substr(0, x.s.size() / 2); });
      if (o.s.size() == before) { attempt([](Op& x) { x.s = x.s.substr(x.s.size() / 2); }); if (o.s.size() == before) break; }
    }
  }
  if (o.keep) attempt([](Op& x) { x.keep = 0; });
  if (o.probe == 0 && o.kind == OK_Q) attempt([](Op& x) { if (x.i[0] > 1 && x.i[0] < 100) x.i[0] = 1; });
}

static Plan minimise(const Plan& orig, const std::string& key, int budget) {
  Plan p = orig;
  g_shrink_runs = 0;
  // whole tasks
  if (p.tasks.size() > 1) {
    for (size_t t = p.tasks.size(); t-- > 0 && p.tasks.size() > 1 && g_shrink_runs < budget;) {
      Plan q = p;
      q.tasks.erase(q.tasks.begin() + t);
      for (auto& d : q.sched.directives) { if (d.task > (int)t) d.task--; if (d.to > (int)t) d.to--; }
      q.sched.directives.erase(std::remove_if(q.sched.directives.begin(), q.sched.directives.end(), [&](const Directive& d) { return d.task == (int)t && false; }), q.sched.directives.end());
      if (p.sched.policy == SP_EXPLICIT) continue;   // task-relative coordinates would need remapping; ops are shrunk instead
      if (still_fails(q, key)) p = q;
    }
  }
  for (int round = 0; round < 2; round++) {
    for (auto& t : p.tasks) shrink_list(p, t.ops, key, budget);
    if (!p.setup.empty()) shrink_list(p, p.setup, key, budget);
  }
  // schedule directives
  if (p.sched.policy == SP_EXPLICIT) {
    for (size_t i = p.sched.directives.size(); i-- > 0 && g_shrink_runs < budget;) {
      Plan q = p;
      q.sched.directives.erase(q.sched.directives.begin() + i);
      if (still_fails(q, key)) p = q;
    }
  }
  for (auto& t : p.tasks)
    for (auto& o : t.ops) simplify_op(p, o, key, budget);
  for (auto& o : p.setup) simplify_op(p, o, key, budget);
  // environment: the caller's thread locale and the allocator reuse mode only stay if the violation needs them
  for (size_t t = 0; t < p.tasks.size() && g_shrink_runs < budget; t++)
    if (p.tasks[t].tloc) { Plan q = p; q.tasks[t].tloc = 0; if (still_fails(q, key)) p = q; }
  {
    bool any = false;
    for (auto& t : p.tasks) any = any || t.wave;
    if (any && g_shrink_runs < budget && p.sched.policy != SP_EXPLICIT) { Plan q = p; for (auto& t : q.tasks) t.wave = 0; if (still_fails(q, key)) p = q; }
  }
  if (p.reuse && g_shrink_runs < budget) { Plan q = p; q.reuse = 0; if (still_fails(q, key)) p = q; }
  if (p.errno_mode && g_shrink_runs < budget) { Plan q = p; q.errno_mode = 0; if (still_fails(q, key)) p = q; }
  return p;
}

// ------------------------------------------------------------------ violation gate
struct SigRecord { uint64_t count = 0; std::string replay, detail, gate; uint64_t first_runseed = 0; size_t orig_ops = 0, min_ops = 0; int shrink_runs = 0; long index = -1; };
static std::map<std::string, SigRecord> g_sigs;

static std::string write_replay(const Plan& p, const std::string& key) {
  std::string safe;
  for (char c : key) safe += (isalnum((unsigned char)c) || c == '_' || c == '-') ? c : '_';
  if (safe.size() > 80) safe = safe.substr(0, 80);
  char b[64];
  snprintf(b, sizeof b, "-%016llx", (unsigned long long)hash_str(key.c_str()));
  std::string path = O.outdir + "/" + O.engine + "-" + safe + b + "-" + O.tag + ".plan";
  Plan q = p;
  q.expect = key;
  std::string txt = plan_to_text(q);
  FILE* f = fopen(path.c_str(), "w");
  if (f) { fputs(txt.c_str(), f); fclose(f); }
  return path;
}

static void gate_and_record(const Plan& plan, const Outcome& first, long index) {
  for (auto& s : first.sigs) {
    std::string key = s.key();
    SigRecord& rec = g_sigs[key];
    rec.count++;
    if (rec.count > 1) continue;
    rec.detail = s.detail;
    rec.first_runseed = plan.runseed;
    rec.index = index;
    rec.orig_ops = plan.nops();
    // (1) same seed, same execution
    Outcome again = evaluate(plan, false);
    if (again.log_hash != first.log_hash || !again.has(key)) { rec.gate = "nondeterministic"; rec.replay = write_replay(plan, key); continue; }
    // explicit schedule for thread plans, when it was recorded completely
    Plan work = plan;
    if (plan.engine == "threads" && plan.sched.policy != SP_EXPLICIT && !again.dirs_overflow) {
      Plan ex = plan;
      ex.sched.policy = SP_EXPLICIT;
      ex.sched.directives = again.dirs;
      if (still_fails(ex, key)) work = ex;
    }
    // (2) minimise (bounded in wall-clock per signature and per worker)
    double tg = now_s();
    double cap = O.tier == "thorough" ? 30 : 6;
    double total_cap = O.tier == "thorough" ? 300 : std::max(8.0, O.budget_s);
    Plan min = work;
    if (g_gate_time_total < total_cap) {
      g_shrink_deadline = tg + cap;
      min = minimise(work, key, O.tier == "thorough" ? 600 : 300);
      g_shrink_deadline = 0;
    }
    rec.shrink_runs = g_shrink_runs;
    rec.min_ops = min.nops();
    // (3) the replay file must fail the same way twice, from the file
    std::string path = write_replay(min, key);
    rec.replay = path;
    std::string txt;
    { FILE* f = fopen(path.c_str(), "r"); if (f) { char buf[65536]; size_t n; while ((n = fread(buf, 1, sizeof buf, f)) > 0) txt.append(buf, n); fclose(f); } }
    Plan back;
    std::string err;
    bool ok = plan_from_text(txt, back, &err);
    if (ok) {
      Outcome r1 = evaluate(back, false), r2 = evaluate(back, false);
      ok = r1.has(key) && r2.has(key) && r1.log_hash == r2.log_hash;
      for (auto& x : r1.sigs) if (x.key() == key) rec.detail = x.detail;
    }
    rec.gate = ok ? "ok" : "replay-failed";
    g_gate_time_total += now_s() - tg;
  }
}

// ------------------------------------------------------------------ batches
static bool nontrivial_plan(const Plan& p, const Outcome&) {
  // rule (stated in evidence): the run executed at least one allocating op (mem/crystal/purity) or at least one
  // pre-emption (threads) — judged from the counters of the run just executed
  if (p.engine == "threads") return SH->preemptions > 0;
  return SH->ops_alloc > 0;
}

static std::vector<std::string> g_samples;
static void emit_gatehash(long i, uint64_t h) {
  char b[128];
  snprintf(b, sizeof b, "{\"t\":\"gatehash\",\"i\":%ld,\"hash\":\"%016llx\"}", i, (unsigned long long)h);
  emit(b);
}

static void one_run(const Plan& p, long index) {
  Outcome o = evaluate(p);
  TT.runs++;
  TT.runs_by_locale[p.locale % 3]++;
  for (auto& t : p.tasks) if (t.tloc) { TT.runs_caller_tloc++; break; }
  for (auto& t : p.tasks) if (t.wave) { TT.runs_waves++; break; }
  if (nontrivial_plan(p, o)) TT.nontrivial.insert(plan_hash(p));
  if (index >= 0 && index < O.gate_n) {
    Outcome o2 = evaluate(p, false);
    emit_gatehash(index, o.log_hash);
    if (o2.log_hash != o.log_hash) {
      char b[256];
      snprintf(b, sizeof b, "{\"t\":\"nondet\",\"i\":%ld,\"h1\":\"%016llx\",\"h2\":\"%016llx\"}", index, (unsigned long long)o.log_hash, (unsigned long long)o2.log_hash);
      emit(b);
    }
  }
  if (g_samples.size() < 3 && p.nops() > 2 && p.nops() < 30 && (TT.runs % 7 == 1)) g_samples.push_back(plan_to_text(p));
  switch (o.status) {
    case ST_OK: if (o.stopped) TT.oom_swallowed++; break;
    case ST_OOM_UNHANDLED: TT.oom_unhandled++; TT.oom_sites[o.oom_site]++; break;
    case ST_WATCHDOG: TT.watchdog++; break;
    case ST_INTERNAL: TT.internal++; break;
    case ST_VIOL: gate_and_record(p, o, index); break;
  }
}

// allocation-fault enumeration: every single-fault position of one allocating op instance
static void enum_instance(uint64_t runseed, long index) {
  Rng r(splitmix64(runseed ^ tag_of("enum")));
  Plan p;
  p.engine = O.engine; p.batch = "enum"; p.data = O.data; p.seed = O.seed; p.runseed = runseed; p.locale = LOC_C;
  p.reuse = splitmix64(runseed ^ tag_of("reuse")) % 4 == 0 ? 1 : 0;
  p.tasks.push_back(TaskPlan());
  GenCfg cfg;
  cfg.min_ops = 1; cfg.max_ops = 6; cfg.w_query = 20; cfg.w_alloc = 45; cfg.w_crystal = 35;
  cfg.file_faults = false;
  gen_history(r, cfg, p.tasks[0].ops, p.next_id);
  if (!O.avoid.empty()) apply_quarantine(p.tasks[0].ops);
  if (p.tasks[0].ops.empty()) return;
  // dry run: allocation counts per op
  Outcome dry = evaluate(p);
  TT.runs++;
  if (dry.status != ST_OK) { if (dry.status == ST_VIOL) gate_and_record(p, dry, index); return; }
  if (nontrivial_plan(p, dry)) TT.nontrivial.insert(plan_hash(p));
  std::vector<uint32_t> na;
  for (auto& x : dry.res[0]) na.push_back(x.nalloc);
  for (size_t i = 0; i < p.tasks[0].ops.size() && i < na.size(); i++) {
    if (p.tasks[0].ops[i].kind == OK_FREE) continue;
    uint32_t n = std::min<uint32_t>(na[i], 64);
    for (uint32_t k = 1; k <= n; k++) {
      Plan q = p;
      q.tasks[0].ops[i].fail = (int)k;
      one_run(q, -1);
    }
  }
}

// systematic strata of the threads engine: for every entry point -- and, where it takes a shell / line / transition
// code, for every value that has a branch of its own plus a sample of the ordinary ones -- a few small runs in which all
// tasks call exactly that function with that code at the same time, with different elements and energies.  Random
// focus (set_focus) reaches a given (function, code) pair a handful of times per quick run at best; a memo or lazily
// built table inside ONE branch of ONE function needs exactly such a pair.
struct TStratum { int q; int macro; bool has_macro; };
static std::vector<TStratum> g_tstrata;
static void build_tstrata() {
  g_tstrata.clear();
  for (int q = 0; q < g_nqueries; q++) {
    const QueryDef& d = g_queries[q];
    if (d.shape[0] == 'i' && d.shape[1] == 'i') {
      const char* cls = d.cls[1] ? d.cls[1] : "";
      std::vector<int> v;
      if (!strcmp(cls, "line")) v = {3, 2, 1, 0, -1, -2, -3, -4, -13, -29, -50, -100, -200, -300, -383};
      else if (!strcmp(cls, "trans")) for (int m = 0; m <= 14; m++) v.push_back(m);
      else if (!strcmp(cls, "auger_trans")) v = {0, 1, 2, 17, 100, 500, 994, 995};
      else for (int m = 0; m <= 30; m += (m < 10 ? 1 : 3)) v.push_back(m);
      for (int m : v) g_tstrata.push_back({q, m, true});
    } else g_tstrata.push_back({q, 0, false});
  }
}
static Plan tstratum_plan(const TStratum& ts, uint64_t runseed) {
  Plan p;
  p.engine = O.engine; p.batch = O.batch; p.data = O.data; p.seed = O.seed; p.runseed = runseed;
  Rng r(splitmix64(runseed ^ tag_of("tstratum")));
  p.locale = r.chance(3, 4) ? LOC_C : LOC_CUTF8;
  const QueryDef& d = g_queries[ts.q];
  static const int Zs[] = {13, 20, 26, 29, 47, 56, 74, 79, 82, 92};
  std::vector<std::string> strs;
  if (strchr(d.shape, 's')) for (int j = 0; j < 3; j++) { bool isnull; std::string f = gen_compound_arg(r, &isnull); if (!isnull) strs.push_back(f); }
  int nt = r.range(2, 4);
  for (int t = 0; t < nt; t++) {
    TaskPlan tp;
    int n = r.range(3, 6);
    for (int k = 0; k < n; k++) {
      Op o = gen_query_op_for(r, p.next_id++, ts.q);
      if (d.shape[0] == 'i' && r.chance(9, 10)) o.i[0] = Zs[r.below(sizeof Zs / sizeof Zs[0])];
      if (ts.has_macro) o.i[1] = ts.macro;
      if (!strs.empty() && r.chance(4, 5)) { o.s = strs[r.below(strs.size())]; o.snull = false; }
      o.keep = 0; o.fail = 0;
      tp.ops.push_back(o);
    }
    p.tasks.push_back(tp);
  }
  Rng rs(splitmix64(runseed ^ tag_of("sched")));
  if (rs.chance(1, 2)) { p.sched.policy = SP_TARGETED; p.sched.param = 2; }
  else { p.sched.policy = SP_RANDOM; static const int ps[] = {16, 64, 256}; p.sched.param = ps[rs.below(3)]; }
  p.sched.seed = rs.next();
  return p;
}

// systematic strata: one (function, Z block) sweep over every macro value in and around the legal range
struct Stratum { int q; int zlo, zhi; };
static std::vector<Stratum> g_strata;
static void build_strata() {
  g_strata.clear();
  for (int q = 0; q < g_nqueries; q++) {
    const QueryDef& d = g_queries[q];
    if (strchr(d.shape, 's')) continue;
    if (d.shape[0] != 'i') { g_strata.push_back({q, 0, 0}); continue; }
    bool macro = d.shape[1] == 'i';
    int step = macro ? 4 : 43;
    for (int z = -3; z <= 125; z += step) g_strata.push_back({q, z, std::min(125, z + step - 1)});
  }
}
static Plan stratum_plan(const Stratum& s, uint64_t runseed) {
  Plan p;
  p.engine = O.engine; p.batch = "strata"; p.data = O.data; p.seed = O.seed; p.runseed = runseed; p.locale = LOC_C;
  p.perturb = O.engine == "mem" && (O.data == "O0" || splitmix64(runseed ^ tag_of("perturb")) % 4 == 0) ? 1 : 0;
  p.tasks.push_back(TaskPlan());
  const QueryDef& d = g_queries[s.q];
  Rng r(runseed);
  static const double Es[] = {0.5, 1.0, 5.0, 17.4, 50.0, 100.0, 0.0, -1.0, 1e4};
  auto push = [&](int z, int m, bool hasm) {
    Op o;
    o.id = p.next_id++;
    o.kind = OK_Q; o.fn = d.name; o.selfc = 1;
    o.slot = (o.id % 5) ? 1 : 0;
    int ii = 0, dd = 0, k = 0;
    for (const char* c = d.shape; *c; ++c, ++k) {
      if (*c == 'i') { if (ii < 4) o.i[ii] = ii == 0 ? z : m; ii++; }
      else if (*c == 'd') {
        const char* cls = d.cls[k] ? d.cls[k] : "";
        double v = Es[r.below(sizeof Es / sizeof Es[0])];
        if (!strcmp(cls, "theta") || !strcmp(cls, "phi")) v = r.unit() * 3.14159;
        if (!strcmp(cls, "q") || !strcmp(cls, "pz")) v = r.chance(1, 8) ? -1.0 : r.unit() * 20;
        if (dd < 12) o.d[dd++] = v;
      }
    }
    (void)hasm;
    p.tasks[0].ops.push_back(o);
  };
  if (d.shape[0] != 'i') { for (int k = 0; k < 200; k++) push(0, 0, false); return p; }
  if (d.shape[1] == 'i') {
    const char* cls = d.cls[1] ? d.cls[1] : "";
    int lo = 0, hi = 30;
    if (!strcmp(cls, "line")) { lo = -383; hi = 3; }
    else if (!strcmp(cls, "trans")) { lo = 0; hi = 14; }
    else if (!strcmp(cls, "auger_trans")) { lo = 0; hi = 995; }
    for (int z = s.zlo; z <= s.zhi; z++)
      for (int m = lo - 5; m <= hi + 5; m++) push(z, m, true);
  } else {
    for (int z = s.zlo; z <= s.zhi; z++)
      for (int k = 0; k < 4; k++) push(z, 0, false);
  }
  // purity: the same calls once more in the opposite order, so that every call of the sweep is also made after its
  // neighbours (a failing call for one code followed by the neighbouring code of the same element, and the reverse);
  // the self-consistency oracle compares the two results of each call
  if (O.engine == "purity") {
    std::vector<Op>& ops = p.tasks[0].ops;
    for (size_t k = ops.size(); k-- > 0;) { Op o = ops[k]; o.id = p.next_id++; ops.push_back(o); }
  }
  return p;
}

// ------------------------------------------------------------------ main
static void usage() {
  fprintf(stderr, "usage: xrlsim --bdir DIR --engine E --batch B --seed S [--first i --stride k --count n --budget-s T] --out FILE --outdir DIR\n"
                  "       xrlsim --bdir DIR --replay FILE [--print-log]\n");
  exit(2);
}

int main(int argc, char** argv) {
  // shared state and the template process come first, before anything that depends on the command line
  SH = (Shared*)mmap(nullptr, sizeof(Shared), PROT_READ | PROT_WRITE, MAP_SHARED | MAP_ANONYMOUS, -1, 0);
  SR = (SchedRecord*)mmap(nullptr, sizeof(SchedRecord), PROT_READ | PROT_WRITE, MAP_SHARED | MAP_ANONYMOUS, -1, 0);
  g_cov = (uint8_t*)mmap(nullptr, g_cov_n + 16, PROT_READ | PROT_WRITE, MAP_SHARED | MAP_ANONYMOUS, -1, 0);
  g_pairs = (uint8_t*)mmap(nullptr, 8192, PROT_READ | PROT_WRITE, MAP_SHARED | MAP_ANONYMOUS, -1, 0);
  g_planbuf = (PlanBuf*)mmap(nullptr, sizeof(PlanBuf), PROT_READ | PROT_WRITE, MAP_SHARED | MAP_ANONYMOUS, -1, 0);
  if (SH == MAP_FAILED || SR == MAP_FAILED || g_cov == MAP_FAILED || g_planbuf == MAP_FAILED) { perror("mmap"); return 2; }
  g_fd_out = memfd_create("xrlsim-stdout", 0);
  g_fd_err = memfd_create("xrlsim-stderr", 0);
  if (g_fd_out < 0 || g_fd_err < 0) { perror("memfd_create"); return 2; }
  {
    const char* bdir = ".";
    for (int i = 1; i + 1 < argc; i++) if (!strcmp(argv[i], "--bdir")) bdir = argv[i + 1];
    if (!spawn_template(bdir)) { perror("template"); return 2; }
  }
  for (int i = 1; i < argc; i++) {
    std::string a = argv[i];
    auto next = [&]() -> std::string { if (i + 1 >= argc) usage(); return argv[++i]; };
    if (a == "--engine") O.engine = next();
    else if (a == "--batch") O.batch = next();
    else if (a == "--seed") O.seed = strtoull(next().c_str(), nullptr, 10);
    else if (a == "--first") O.first = atol(next().c_str());
    else if (a == "--stride") O.stride = atol(next().c_str());
    else if (a == "--count") O.count = atol(next().c_str());
    else if (a == "--budget-s") O.budget_s = atof(next().c_str());
    else if (a == "--gate-n") O.gate_n = atoi(next().c_str());
    else if (a == "--max-ops") O.max_ops = atoi(next().c_str());
    else if (a == "--out") { std::string f = next(); g_out = fopen(f.c_str(), "w"); if (!g_out) { perror("out"); return 2; } }
    else if (a == "--outdir") O.outdir = next();
    else if (a == "--bdir") O.bdir = next();
    else if (a == "--replay") O.replay = next();
    else if (a == "--tier") O.tier = next();
    else if (a == "--tag") O.tag = next();
    else if (a == "--avoid") O.avoid = next();
    else if (a == "--catalogue") O.catalogue = atoi(next().c_str());
    else if (a == "--first-cache") O.first_cache = next();
    else if (a == "--data") O.data = next();
    else if (a == "--print-log") O.print_log = true;
    else if (a == "-v") O.verbose++;
    else usage();
  }
  if (!g_out) g_out = stdout;
  { const char* ld = getenv("XV_LOCALE_DIR"); setenv("LOCPATH", ld ? ld : (O.bdir + "/../locale").c_str(), 1); }
  symbols_load((O.bdir + "/exe.sym").c_str(), O.bdir.c_str());
  load_builtin_crystals((O.bdir + "/Crystals.dat").c_str());
  signal(SIGPIPE, SIG_IGN);

  if (!O.replay.empty()) {
    std::string txt;
    FILE* f = fopen(O.replay.c_str(), "r");
    if (!f) { perror("replay"); return 2; }
    char buf[65536];
    size_t n;
    while ((n = fread(buf, 1, sizeof buf, f)) > 0) txt.append(buf, n);
    fclose(f);
    Plan p;
    std::string err;
    if (!plan_from_text(txt, p, &err)) { fprintf(stderr, "xrlsim: cannot parse %s: %s\n", O.replay.c_str(), err.c_str()); return 2; }
    O.engine = p.engine;
    if (p.engine == "purity") build_catalogue(splitmix64(p.seed ^ tag_of(p.engine)));
    Outcome o1 = evaluate(p, true, true);
    Outcome o2 = evaluate(p, false);
    if (O.print_log) fputs(o1.log.c_str(), stdout);
    printf("replay %s: log hash %016llx / %016llx (%s)\n", O.replay.c_str(), (unsigned long long)o1.log_hash, (unsigned long long)o2.log_hash,
           o1.log_hash == o2.log_hash ? "deterministic" : "NONDETERMINISTIC");
    for (auto& s : o1.sigs) printf("  violation %s: %s\n", s.key().c_str(), s.detail.c_str());
    if (o1.status == ST_OOM_UNHANDLED) printf("  (unhandled injected allocation failure in %s: not judged)\n", o1.oom_site.c_str());
    if (!o1.stderr_text.empty() && O.verbose) printf("---- child stderr ----\n%s\n", o1.stderr_text.c_str());
    bool reproduced = !p.expect.empty() && o1.has(p.expect) && o2.has(p.expect);
    if (!p.expect.empty()) printf("expected %s: %s\n", p.expect.c_str(), reproduced ? "REPRODUCED" : "not reproduced");
    std::string line = "{\"t\":\"replay\",\"expect\":\"" + jesc(p.expect) + "\",\"reproduced\":" + (reproduced ? "true" : "false") + ",\"sigs\":[";
    for (size_t i = 0; i < o1.sigs.size(); i++) line += std::string(i ? "," : "") + "\"" + jesc(o1.sigs[i].key()) + "\"";
    line += "]}";
    if (g_out != stdout) emit(line);
    if (o1.log_hash != o2.log_hash) return 2;
    return o1.sigs.empty() ? 0 : 1;
  }

  uint64_t master = splitmix64(O.seed ^ tag_of(O.engine));
  if (O.engine == "purity") build_catalogue(master);
  if (O.engine == "purity" && O.batch == "first") {
    // oracle 1, reference side: every catalogue probe as the first and only library call of a fresh process,
    // in each locale configuration
    std::string path = O.outdir + "/" + O.tag + ".first";
    FILE* f = fopen(path.c_str(), "w");
    uint64_t n = 0;
    for (size_t i = (size_t)O.first; i < g_catalogue.size(); i += (size_t)O.stride)
      for (int loc = 0; loc < 3; loc++) {
        OpResult r = first_call(g_catalogue[i], loc, O.seed);
        if (f) fprintf(f, "%016llx %d %d %s\n", (unsigned long long)r.digest, r.failed, r.done, probe_key(g_catalogue[i], loc).c_str());
        n++;
      }
    if (f) fclose(f);
    char b[128];
    snprintf(b, sizeof b, "{\"t\":\"first\",\"computed\":%llu}", (unsigned long long)n);
    emit(b);
    if (g_out != stdout) fclose(g_out);
    return 0;
  }
  if (!O.first_cache.empty()) {
    FILE* f = fopen(O.first_cache.c_str(), "r");
    if (f) {
      char line[8192];
      while (fgets(line, sizeof line, f)) {
        unsigned long long d; int failed, done; int off = 0;
        if (sscanf(line, "%llx %d %d %n", &d, &failed, &done, &off) >= 3 && off > 0) {
          std::string key = line + off;
          if (!key.empty() && key.back() == '\n') key.pop_back();
          g_first_cache[key] = OpResult{d, (uint8_t)done, (uint8_t)failed, 0, 0, 0};
        }
      }
      fclose(f);
    }
  }
  if (O.batch == "strata") build_strata();
  if (O.batch == "sched_strata") build_tstrata();
  double t0 = now_s();
  long done = 0;
  for (long k = 0; k < O.count; k++) {
    long i = O.first + k * O.stride;
    if (now_s() - t0 > O.budget_s && i >= O.gate_n) break;
    uint64_t runseed = splitmix64(master + (uint64_t)i + tag_of(O.batch));
    if (O.batch == "enum") enum_instance(runseed, i);
    else if (O.batch == "strata") {
      if (g_strata.empty()) break;
      if (O.tier == "thorough" && i >= 16 * (long)g_strata.size()) break;   // every stratum 16 times, each with other continuous arguments
      const Stratum& s = g_strata[(size_t)((uint64_t)i * 2654435761ULL % g_strata.size())];
      one_run(stratum_plan(O.tier == "thorough" ? g_strata[(size_t)i % g_strata.size()] : s, runseed), -1);
    } else if (O.batch == "sched_strata") {
      if (g_tstrata.empty()) break;
      if (O.tier == "thorough" && i >= 8 * (long)g_tstrata.size()) break;   // every stratum 8 times
      const TStratum& ts = O.tier == "thorough" ? g_tstrata[(size_t)i % g_tstrata.size()] : g_tstrata[(size_t)((uint64_t)i * 2654435761ULL % g_tstrata.size())];
      one_run(tstratum_plan(ts, runseed), i);
    } else {
      g_run_index = i;
      Plan p = gen_plan(runseed);
      one_run(p, i);
    }
    done++;
  }
  double wall = now_s() - t0;
  // ---- results
  for (auto& kv : g_sigs) {
    const SigRecord& r = kv.second;
    char b[512];
    snprintf(b, sizeof b, "\",\"count\":%llu,\"gate\":\"%s\",\"runseed\":\"%llu\",\"index\":%ld,\"orig_ops\":%zu,\"min_ops\":%zu,\"shrink_runs\":%d,\"replay\":\"",
             (unsigned long long)r.count, r.gate.c_str(), (unsigned long long)r.first_runseed, r.index, r.orig_ops, r.min_ops, r.shrink_runs);
    emit("{\"t\":\"sig\",\"sig\":\"" + jesc(kv.first) + b + jesc(r.replay) + "\",\"detail\":\"" + jesc(r.detail) + "\"}");
  }
  {
    uint64_t cov = 0;
    for (uint32_t i = 0; i < g_cov_n; i++) cov += g_cov[i];
    std::string s = "{\"t\":\"stats\"";
    char b[256];
    auto kv = [&](const char* k, uint64_t v) { snprintf(b, sizeof b, ",\"%s\":%llu", k, (unsigned long long)v); s += b; };
    kv("seeds", done); kv("runs", TT.runs); kv("forks", TT.forks); kv("events", TT.events); kv("allocs", TT.allocs); kv("seam_calls", TT.seam_calls);
    kv("preemptions", TT.preemptions); kv("switches", TT.switches); kv("ops", TT.ops); kv("ops_alloc", TT.ops_alloc);
    kv("oom_unhandled", TT.oom_unhandled); kv("oom_swallowed", TT.oom_swallowed); kv("watchdog", TT.watchdog); kv("internal", TT.internal);
    kv("first_call_runs", g_first_runs); kv("unmodelled_sync", TT.unmodelled_sync); kv("edges_total", g_cov_n ? g_cov_n - 1 : 0); kv("edges_covered", cov);
    kv("nontrivial", TT.nontrivial.size()); kv("sched_hashes", TT.sched_hashes.size());
    kv("runs_locale_C", TT.runs_by_locale[0]); kv("runs_locale_Cutf8", TT.runs_by_locale[1]); kv("runs_locale_xx", TT.runs_by_locale[2]); kv("runs_caller_thread_locale", TT.runs_caller_tloc); kv("perturbation_partner_runs", TT.perturb_runs); kv("runs_with_thread_waves", TT.runs_waves);
    snprintf(b, sizeof b, ",\"wall_s\":%.3f", wall); s += b;
    s += ",\"faults\":{";
    for (int i = 0; i < FK_N; i++) { snprintf(b, sizeof b, "%s\"%s\":%llu", i ? "," : "", kFaultNames[i], (unsigned long long)TT.faults[i]); s += b; }
    s += "},\"probes\":{";
    for (int i = 0; i < PR_N; i++) { snprintf(b, sizeof b, "%s\"%s\":%llu", i ? "," : "", kProbeNames[i], (unsigned long long)TT.probes[i]); s += b; }
    s += "},\"oom_sites\":{";
    bool firstk = true;
    for (auto& e : TT.oom_sites) { snprintf(b, sizeof b, "%s\"%s\":%llu", firstk ? "" : ",", jesc(e.first).c_str(), (unsigned long long)e.second); s += b; firstk = false; }
    s += "},\"samples\":[";
    for (size_t i = 0; i < g_samples.size(); i++) s += std::string(i ? "," : "") + "\"" + jesc(g_samples[i]) + "\"";
    s += "]}";
    emit(s);
  }
  // distinct non-trivial plan hashes and covered edges, for the union across workers
  {
    std::string path = O.outdir + "/" + O.tag + ".hashes";
    FILE* f = fopen(path.c_str(), "wb");
    if (f) { for (uint64_t h : TT.nontrivial) fwrite(&h, 8, 1, f); fclose(f); }
    path = O.outdir + "/" + O.tag + ".cov";
    f = fopen(path.c_str(), "wb");
    if (f) { fwrite(g_cov, 1, g_cov_n, f); fclose(f); }
    {
      std::map<std::string, std::pair<int, int>> byfn;
      coverage_by_function(byfn);
      path = O.outdir + "/" + O.tag + ".fncov";
      f = fopen(path.c_str(), "w");
      if (f) { for (auto& kv : byfn) fprintf(f, "%s %d %d\n", kv.first.c_str(), kv.second.first, kv.second.second); fclose(f); }
    }
    path = O.outdir + "/" + O.tag + ".pairs";
    f = fopen(path.c_str(), "wb");
    if (f) { if (g_pairs && g_pairs != (uint8_t*)MAP_FAILED) fwrite(g_pairs, 1, 8192, f); fclose(f); }
    path = O.outdir + "/" + O.tag + ".sched";
    f = fopen(path.c_str(), "wb");
    if (f) { for (uint64_t h : TT.sched_hashes) fwrite(&h, 8, 1, f); fclose(f); }
  }
  if (g_out != stdout) fclose(g_out);
  return 0;
}
