// Baton scheduler over real pthreads + vector-clock race detector + simulated mutexes.
#include "xsched.h"
#include <algorithm>
#include <errno.h>
#include <pthread.h>
#include <semaphore.h>
#include <string.h>
#include <unordered_map>
#include <unordered_set>

namespace xs {

SchedRecord* SR = nullptr;
bool g_monitor_tables = false;
uint64_t g_event_cap = 60000000;

struct Task {
  int id = 0;
  pthread_t th{};
  sem_t sem;
  bool finished = false;
  bool started = true;            // waves: the pthread of a later wave is only created when the earlier waves have exited
  int wave = 0;
  uintptr_t blocked_on = 0;
  TaskCtx ctx{};
  uint32_t vc[MAXTASK] = {0};
  std::vector<Directive> dirs;
  size_t next_dir = 0;
  int prio = 0;
  uintptr_t last_pc = 0;          // library pc of this task's most recent event (for the switch-pair reach measure)
  uint64_t run_since_switch = 0;
  std::function<void()>* body = nullptr;
};

static std::vector<Task*> T;
static int g_cur = -1;
static sem_t g_ctrl;
static SchedCfg g_cfg;
static Rng g_srng(1);
static uint64_t g_sched_events = 0;
static std::vector<uint64_t> g_pct_points;
static size_t g_pct_next = 0;
static int g_pct_fair = 0;
// atomic operations (hooks called from the macros of sim/xs_atomics.h, force-included into the library)
struct SyncObj { uint32_t vc[MAXTASK] = {0}; };
static std::unordered_map<uintptr_t, SyncObj> g_sync;
static SyncObj g_fence_sync;
uint64_t g_atomic_ops = 0;

int current_task() { return g_cur; }

// ------------------------------------------------------------------ race detector
struct Shadow {
  int8_t w_tid = -1;
  uint32_t w_clk = 0, w_pc = 0;
  uint32_t r_clk[MAXTASK] = {0};
  uint32_t r_pc[MAXTASK] = {0};
};
static std::unordered_map<uintptr_t, Shadow> g_shadow;
static uint64_t g_virt[VL_N * 8];

void race_forget_range(uintptr_t a, size_t n) {
  if (!g_threads_mode || g_shadow.empty() || !n) return;
  for (uintptr_t g = a >> 3; g <= (a + n - 1) >> 3; g++) g_shadow.erase(g);
}

static void report_race(uintptr_t addr, int t1, bool w1, uint32_t pc1, int t2, bool w2, uint32_t pc2, const char* what) {
  std::string s1 = pc1 ? site_of_pc(exe_base() + pc1) : std::string("?");
  std::string s2 = pc2 ? site_of_pc(exe_base() + pc2) : std::string("?");
  std::string a = s1, b = s2;
  if (b < a) std::swap(a, b);
  std::string site = a + "|" + b;
  std::string where = what ? std::string(what) : data_site(addr);
  if (sym_is_atomic_func(s1) && sym_is_atomic_func(s2)) {
    // both accesses come from functions that synchronise with atomic instructions the detector does not model
    SH->unmodelled_sync++;
    logf("NOTE unmodelled synchronisation: %s vs %s on %s", s1.c_str(), s2.c_str(), where.c_str());
    return;
  }
  SH->races_seen++;
  violation("race", site.c_str(), "%s by task %d in %s vs %s by task %d in %s on %s", w1 ? "write" : "read", t1, s1.c_str(),
            w2 ? "write" : "read", t2, s2.c_str(), where.c_str());
}

static std::unordered_set<uintptr_t> g_atomic_granules;   // locations accessed by atomic operations (never a data race themselves)

static void race_check(uintptr_t a, size_t n, bool write, uintptr_t pc, const char* what) {
  if (g_cur < 0 || !n) return;
  if (n <= 8 && !g_atomic_granules.empty() && g_atomic_granules.count(a >> 3)) return;
  Task& t = *T[g_cur];
  uint32_t pco = (uint32_t)(pc - exe_base());
  uintptr_t g0 = a >> 3, g1 = (a + n - 1) >> 3;
  if (g1 - g0 > 65536) g1 = g0 + 65536;
  for (uintptr_t g = g0; g <= g1; g++) {
    Shadow& s = g_shadow[g];
    if (s.w_tid >= 0 && s.w_tid != t.id && s.w_clk > t.vc[s.w_tid]) {
      report_race(g << 3, s.w_tid, true, s.w_pc, t.id, write, pco, what);
      s.w_clk = 0;  // report each pair once per granule
    }
    if (write) {
      for (size_t u = 0; u < T.size(); u++)
        if ((int)u != t.id && s.r_clk[u] > t.vc[u]) {
          report_race(g << 3, (int)u, false, s.r_pc[u], t.id, true, pco, what);
          s.r_clk[u] = 0;
        }
      s.w_tid = (int8_t)t.id;
      s.w_clk = t.vc[t.id];
      s.w_pc = pco;
    } else {
      s.r_clk[t.id] = t.vc[t.id];
      s.r_pc[t.id] = pco;
    }
  }
}

void race_touch(uintptr_t a, size_t n, bool write, uintptr_t pc) {
  if (g_threads_mode) race_check(a, n, write, pc, nullptr);
}

// ------------------------------------------------------------------ baton
static bool runnable(const Task* t) { return t->started && !t->finished && !t->blocked_on; }

static void record_dir(int task, uint64_t at, int to) {
  SH->sched_hash = splitmix64(SH->sched_hash ^ ((uint64_t)task << 48) ^ (at << 8) ^ (uint64_t)to);
  if (!SR) return;
  if (SR->ndirs < MAXDIRS) SR->dirs[SR->ndirs++] = Directive{task, at, to};
  else SR->overflow = 1;
}

static uintptr_t g_event_pc = 0;
static void switch_to(int to, const char* reason) {
  Task* me = T[g_cur];
  Task* nx = T[to];
  SH->switches++;
  me->last_pc = g_event_pc;
  if (g_pairs) {
    // reach measure: which (function pre-empted, function resumed) pairs did the schedules produce
    const Sym* a = me->last_pc ? sym_lookup(me->last_pc) : nullptr;
    const Sym* b = nx->last_pc ? sym_lookup(nx->last_pc) : nullptr;
    uint64_t h = splitmix64((a ? a->addr : 1) * 1000003ULL + (b ? b->addr : 2));
    g_pairs[(h >> 3) & 8191] |= (uint8_t)(1u << (h & 7));
  }
  logf("S t%d@%llu -> t%d %s", me->id, (unsigned long long)me->ctx.events, to, reason);
  g_cur = to;
  nx->run_since_switch = 0;
  sem_post(&nx->sem);
  sem_wait(&me->sem);
  publish_ctx(&me->ctx);
}

static int pick_other(int cur) {
  int cand[MAXTASK], n = 0;
  for (Task* t : T)
    if (t->id != cur && runnable(t)) cand[n++] = t->id;
  if (!n) return -1;
  return cand[g_srng.below(n)];
}
static int lowest_other(int cur) {
  for (Task* t : T)
    if (t->id != cur && runnable(t)) return t->id;
  return -1;
}

static void maybe_yield(bool visible) {
  if (g_cur < 0) return;
  Task& t = *T[g_cur];
  if (t_task != &t.ctx) return;  // not a task thread (controller)
  int to = -1;
  // Fairness rule (all policies, deterministic): a task that has run 200 000 events in one stretch while others
  // are runnable is pre-empted.  Without it a task spinning on a lock-free flag (a user-level spinlock, a "wait
  // until initialised" loop) whose holder was pre-empted would spin until the event budget and be reported as
  // no-progress, which no real scheduler would let happen.
  if (++t.run_since_switch > 200000 && g_cfg.policy != SP_PCT) {
    int nx = -1;
    for (size_t k = 1; k <= T.size(); k++) {
      Task* u = T[(t.id + k) % T.size()];
      if (u->id != t.id && runnable(u)) { nx = u->id; break; }
    }
    t.run_since_switch = 0;
    if (nx >= 0) {
      SH->preemptions++;
      record_dir(t.id, t.ctx.events, nx);
      switch_to(nx, "fairness");
      return;
    }
  }
  switch (g_cfg.policy) {
    case SP_EXPLICIT:
      while (t.next_dir < t.dirs.size() && t.ctx.events >= t.dirs[t.next_dir].at_event) {
        to = t.dirs[t.next_dir].to;
        t.next_dir++;
      }
      if (to >= 0 && (to >= (int)T.size() || !runnable(T[to]) || to == t.id)) to = lowest_other(t.id);
      break;
    case SP_RANDOM:
      if (g_srng.below(g_cfg.param) == 0) to = pick_other(t.id);
      break;
    case SP_TARGETED:
      if (visible && g_srng.below(g_cfg.param) == 0) to = pick_other(t.id);
      break;
    case SP_PCT: {
      g_sched_events++;
      while (g_pct_next < g_pct_points.size() && g_sched_events >= g_pct_points[g_pct_next]) {
        t.prio = -(int)(g_pct_next + 1);
        g_pct_next++;
      }
      if (t.run_since_switch > 200000) {   // see the fairness rule below
        t.prio = -(int)(1000 + g_pct_fair++);
        t.run_since_switch = 0;
      }
      int best = t.id, bp = t.prio;
      for (Task* u : T)
        if (runnable(u) && u->prio > bp) { bp = u->prio; best = u->id; }
      if (best != t.id) to = best;
      break;
    }
    default: break;
  }
  if (to < 0 || to == t.id) return;
  SH->preemptions++;
  SH->faults[FK_PREEMPT]++;
  if (visible) SH->probes[PR_PREEMPT_VISIBLE]++;
  record_dir(t.id, t.ctx.events, to);
  switch_to(to, visible ? "preempt-visible" : "preempt");
}

static void task_block(uintptr_t on) {
  Task& t = *T[g_cur];
  t.blocked_on = on;
  int to = lowest_other(t.id);
  if (to < 0) {
    violation("deadlock", SH->cur_fn, "task %d blocks on a lock and no task is runnable", t.id);
    child_exit(0);
  }
  switch_to(to, "blocked");
}

static void* thread_main(void* arg) {
  Task* t = (Task*)arg;
  set_task_stack(&t->ctx);
  t_task = &t->ctx;
  sem_wait(&t->sem);
  publish_ctx(&t->ctx);
  (*t->body)();
  t->finished = true;
  logf("T t%d finished events=%llu", t->id, (unsigned long long)t->ctx.events);
  SH->task_events[t->id] = t->ctx.events;
  int to = -1;
  if (g_cfg.policy == SP_PCT) {
    int bp = -1000000;
    for (Task* u : T)
      if (runnable(u) && u->prio > bp) { bp = u->prio; to = u->id; }
  } else {
    to = lowest_other(t->id);
  }
  if (to >= 0) {
    g_cur = to;
    sem_post(&T[to]->sem);
  } else {
    bool all = true;
    for (Task* u : T) all = all && (u->finished || !u->started);
    if (!all) {
      violation("deadlock", "scheduler", "tasks blocked with no runnable task at the end of task %d", t->id);
      child_exit(0);
    }
    g_cur = -1;
    sem_post(&g_ctrl);
  }
  return nullptr;
}

void run_tasks(const SchedCfg& cfg, std::vector<std::function<void()>>& bodies, const std::vector<int>& waves) {
  g_cfg = cfg;
  g_srng.reseed(cfg.seed ^ 0x5ced5ced5cedULL);
  g_shadow.clear();
  g_sync.clear();
  g_atomic_granules.clear();
  g_fence_sync = SyncObj();
  g_sched_events = 0;
  g_pct_points.clear();
  g_pct_next = 0;
  g_pct_fair = 0;
  for (Task* t : T) delete t;
  T.clear();
  sem_init(&g_ctrl, 0, 0);
  int n = (int)bodies.size();
  for (int i = 0; i < n; i++) {
    Task* t = new Task();
    t->id = i;
    t->ctx = TaskCtx();
    t->ctx.id = i;
    t->ctx.events = 0;
    sem_init(&t->sem, 0, 0);
    t->vc[i] = 1;
    t->body = &bodies[i];
    t->prio = 0;
    for (auto& d : cfg.directives)
      if (d.task == i) t->dirs.push_back(d);
    std::stable_sort(t->dirs.begin(), t->dirs.end(), [](const Directive& a, const Directive& b) { return a.at_event < b.at_event; });
    T.push_back(t);
  }
  if (cfg.policy == SP_PCT) {
    // random distinct priorities, d-1 change points over the expected number of events
    std::vector<int> perm(n);
    for (int i = 0; i < n; i++) perm[i] = i + 1;
    for (int i = n - 1; i > 0; i--) std::swap(perm[i], perm[g_srng.below(i + 1)]);
    for (int i = 0; i < n; i++) T[i]->prio = perm[i];
    uint64_t total = 0;
    for (auto e : cfg.task_events_hint) total += e;
    if (total < 16) total = 16;
    for (int k = 0; k + 1 < cfg.param; k++) g_pct_points.push_back(1 + g_srng.below(total));
    std::sort(g_pct_points.begin(), g_pct_points.end());
  }
  pthread_attr_t at;
  pthread_attr_init(&at);
  pthread_attr_setstacksize(&at, 1 << 20);
  int maxwave = 0;
  for (int i = 0; i < n; i++) { T[i]->wave = i < (int)waves.size() ? waves[i] : 0; T[i]->started = false; if (T[i]->wave > maxwave) maxwave = T[i]->wave; }
  g_threads_mode = true;
  TaskCtx* saved = t_task;
  // Thread lifecycle: the tasks of wave w+1 get their pthreads only after every task of wave w has exited and been
  // joined, so they typically reuse the stacks, TLS blocks and pthread_t values of the dead threads.  Everything a
  // finished task did happens-before the start of a later wave.
  for (int w = 0; w <= maxwave; w++) {
    uint32_t base[MAXTASK] = {0};
    for (Task* u : T)
      if (u->finished) for (int k = 0; k < MAXTASK; k++) if (u->vc[k] > base[k]) base[k] = u->vc[k];
    int first = -1, bp = -1;
    for (Task* t : T) {
      if (t->wave != w) continue;
      for (int k = 0; k < MAXTASK; k++) if (base[k] > t->vc[k]) t->vc[k] = base[k];
      t->started = true;
      if (pthread_create(&t->th, &at, thread_main, t) != 0) {
        fprintf(stderr, "xrlsim: pthread_create failed\n");
        child_exit(3);
      }
      if (first < 0) first = t->id;
      if (cfg.policy == SP_PCT && t->prio > bp) { bp = t->prio; first = t->id; }
    }
    if (first < 0) continue;
    if (w > 0) logf("WAVE %d starts", w);
    g_cur = first;
    sem_post(&T[first]->sem);
    sem_wait(&g_ctrl);
    for (Task* t : T) if (t->wave == w) pthread_join(t->th, nullptr);
  }
  pthread_attr_destroy(&at);
  g_threads_mode = false;
  g_cur = -1;
  t_task = saved;
}

// ------------------------------------------------------------------ instrumentation entry points
static inline bool event_tick(TaskCtx* t, uintptr_t pc) {
  t->events++;
  if (++SH->events > g_event_cap) {
    violation("no-progress", site_of_pc(pc).c_str(), "event budget %llu exceeded in %s", (unsigned long long)g_event_cap, SH->cur_fn);
    child_exit(0);
  }
  return true;
}

void on_edge(uintptr_t pc) {
  TaskCtx* t = t_task;
  if (!t || !SH) return;
  g_event_pc = pc;
  event_tick(t, pc);
  if (g_threads_mode) maybe_yield(false);
}

void on_mem_access(uintptr_t a, size_t n, bool write, uintptr_t pc) {
  TaskCtx* t = t_task;
  if (!t || !SH) return;
  g_event_pc = pc;
  event_tick(t, pc);
  if (a >= t->stack_lo && a < t->stack_hi) return;
  if (write && g_monitor_tables && n && !g_table_store_seen && (in_table_set(a) || in_table_set(a + n - 1))) {
    // judged after the op: a store that leaves the table contents as they were is not a modification
    g_table_store_seen = true;
    snprintf(g_table_store_site, sizeof g_table_store_site, "%s", site_of_pc(pc).c_str());
    snprintf(g_table_store_where, sizeof g_table_store_where, "%s", data_site(a).c_str());
  }
  if (g_threads_mode) {
    bool visible = false;
    if (g_cfg.policy == SP_TARGETED) {
      if (in_lib_static(a)) visible = write;
      else {
        const AllocInfo* ai = live_find((const void*)a);
        visible = ai && ai->task != t->id;
      }
    }
    maybe_yield(visible);
    race_check(a, n, write, pc, nullptr);
  }
}

static const char* const kVirtNames[VL_N] = {"libc:LC_NUMERIC", "libc:locale(other)", "libc:strtok-state", "libc:rand-state",
                                             "libc:static-struct-tm", "libc:environ", "libc:localeconv-buffer", "process:cwd",
                                             "libc:hsearch-table", "libc:signgam", "libc:ecvt-buffer"};
void virt_access(int loc, bool write, const char* what, uintptr_t pc) {
  TaskCtx* t = t_task;
  if (!t || !SH) return;
  event_tick(t, pc);
  if (g_threads_mode) {
    maybe_yield(write);
    char buf[96];
    snprintf(buf, sizeof buf, "%s via %s", kVirtNames[loc], what);
    race_check((uintptr_t)&g_virt[loc * 8], 8, write, pc, buf);
  }
}

void sched_visible(const char* what) {
  TaskCtx* t = t_task;
  if (!t || !SH) return;
  event_tick(t, (uintptr_t)__builtin_return_address(0));
  if (g_threads_mode) maybe_yield(true);
}

// ------------------------------------------------------------------ simulated mutexes / once
struct Mx { int owner = -1; int depth = 0; int readers[MAXTASK] = {0}; int nreaders = 0; uint32_t vc[MAXTASK] = {0}; uint32_t rvc[MAXTASK] = {0}; };
struct Cv { int waiting[MAXTASK] = {0}; };
static std::unordered_map<uintptr_t, Cv> g_cv;
static std::unordered_map<uintptr_t, Mx> g_mx;
struct Once { int state = 0; int owner = -1; uint32_t vc[MAXTASK] = {0}; };
static std::unordered_map<uintptr_t, Once> g_once;

static int me_id() { return g_threads_mode && g_cur >= 0 ? g_cur : 0; }
static void vc_acquire(const uint32_t* from) {
  if (!g_threads_mode || g_cur < 0) return;
  Task& t = *T[g_cur];
  for (int i = 0; i < MAXTASK; i++) t.vc[i] = std::max(t.vc[i], from[i]);
}
static void vc_release(uint32_t* into) {
  if (!g_threads_mode || g_cur < 0) return;
  Task& t = *T[g_cur];
  for (int i = 0; i < MAXTASK; i++) into[i] = std::max(into[i], t.vc[i]);
  t.vc[t.id]++;
}
static void wake(uintptr_t on) {
  for (Task* u : T)
    if (u->blocked_on == on) u->blocked_on = 0;
}

}  // namespace xs

using namespace xs;
extern "C" {
// memory orders: relaxed 0, consume 1, acquire 2, release 3, acq_rel 4, seq_cst 5
void xs_atomic_pre(const volatile void* addr, int kind, int mo) {
  g_atomic_ops++;
  sched_visible("atomic");
  if (!g_threads_mode) return;
  uintptr_t a = (uintptr_t)addr;
  if (a) g_atomic_granules.insert(a >> 3);
  bool rel = mo == 3 || mo == 4 || mo == 5;
  if (kind == 4) { if (rel) vc_release(g_fence_sync.vc); return; }
  if ((kind == 2 || kind == 3) && rel) vc_release(g_sync[a].vc);
}
void xs_atomic_post(const volatile void* addr, int kind, int mo) {
  if (!g_threads_mode) return;
  uintptr_t a = (uintptr_t)addr;
  bool acq = mo == 1 || mo == 2 || mo == 4 || mo == 5;
  if (kind == 4) { if (acq) vc_acquire(g_fence_sync.vc); return; }
  if ((kind == 1 || kind == 3) && acq) {
    auto it = g_sync.find(a);
    if (it != g_sync.end()) vc_acquire(it->second.vc);
  }
}
static bool mx_recursive(pthread_mutex_t* m) { return (m->__data.__kind & 3) == PTHREAD_MUTEX_RECURSIVE_NP; }
int xs_pthread_mutex_init(pthread_mutex_t* m, const pthread_mutexattr_t* a) { pthread_mutex_init(m, a); g_mx[(uintptr_t)m] = Mx(); return 0; }
int xs_pthread_mutex_destroy(pthread_mutex_t* m) { g_mx.erase((uintptr_t)m); return 0; }
static int mx_lock(uintptr_t key, bool recursive, const char* what) {
  sched_visible(what);
  int me = me_id();
  for (;;) {
    Mx& x = g_mx[key];
    if (x.owner == -1 && x.nreaders == 0) break;
    if (x.owner == me && recursive) { x.depth++; return 0; }
    if (x.owner == me || !g_threads_mode) {
      violation("deadlock", SH->cur_fn, "task %d re-locks a non-recursive lock it already holds", me);
      child_exit(0);
    }
    task_block(key);
  }
  Mx& x = g_mx[key];
  x.owner = me;
  x.depth = 1;
  vc_acquire(x.vc);
  vc_acquire(x.rvc);
  logf("LOCK t%d", me);
  return 0;
}
static int mx_trylock(uintptr_t key, bool recursive) {
  sched_visible("trylock");
  Mx& x = g_mx[key];
  int me = me_id();
  if (x.owner == me && recursive) { x.depth++; return 0; }
  if (x.owner != -1 || x.nreaders) return EBUSY;
  x.owner = me;
  x.depth = 1;
  vc_acquire(x.vc);
  vc_acquire(x.rvc);
  return 0;
}
static int mx_unlock(uintptr_t key) {
  Mx& x = g_mx[key];
  int me = me_id();
  if (x.owner == me) {
    if (--x.depth > 0) return 0;
    vc_release(x.vc);
    x.owner = -1;
  } else if (x.readers[me % MAXTASK] > 0) {
    x.readers[me % MAXTASK]--;
    x.nreaders--;
    vc_release(x.rvc);
  } else {
    return EPERM;
  }
  wake(key);
  logf("UNLOCK t%d", me);
  sched_visible("unlock");
  return 0;
}
static int rw_rdlock(uintptr_t key, bool try_only) {
  sched_visible("rdlock");
  int me = me_id();
  for (;;) {
    Mx& x = g_mx[key];
    if (x.owner == -1) break;
    if (try_only) return EBUSY;
    if (x.owner == me || !g_threads_mode) {
      violation("deadlock", SH->cur_fn, "task %d read-locks a lock it holds for writing", me);
      child_exit(0);
    }
    task_block(key);
  }
  Mx& x = g_mx[key];
  x.readers[me % MAXTASK]++;
  x.nreaders++;
  vc_acquire(x.vc);
  return 0;
}
int xs_pthread_mutex_lock(pthread_mutex_t* m) { return mx_lock((uintptr_t)m, mx_recursive(m), "mutex_lock"); }
int xs_pthread_mutex_trylock(pthread_mutex_t* m) { return mx_trylock((uintptr_t)m, mx_recursive(m)); }
int xs_pthread_mutex_unlock(pthread_mutex_t* m) { return mx_unlock((uintptr_t)m); }
int xs_pthread_spin_init(pthread_spinlock_t* l, int) { g_mx[(uintptr_t)l] = Mx(); return 0; }
int xs_pthread_spin_destroy(pthread_spinlock_t* l) { g_mx.erase((uintptr_t)l); return 0; }
int xs_pthread_spin_lock(pthread_spinlock_t* l) { return mx_lock((uintptr_t)l, false, "spin_lock"); }
int xs_pthread_spin_trylock(pthread_spinlock_t* l) { return mx_trylock((uintptr_t)l, false); }
int xs_pthread_spin_unlock(pthread_spinlock_t* l) { return mx_unlock((uintptr_t)l); }
int xs_pthread_rwlock_init(pthread_rwlock_t* l, const pthread_rwlockattr_t*) { g_mx[(uintptr_t)l] = Mx(); return 0; }
int xs_pthread_rwlock_destroy(pthread_rwlock_t* l) { g_mx.erase((uintptr_t)l); return 0; }
int xs_pthread_rwlock_rdlock(pthread_rwlock_t* l) { return rw_rdlock((uintptr_t)l, false); }
int xs_pthread_rwlock_tryrdlock(pthread_rwlock_t* l) { return rw_rdlock((uintptr_t)l, true); }
int xs_pthread_rwlock_wrlock(pthread_rwlock_t* l) { return mx_lock((uintptr_t)l, false, "wrlock"); }
int xs_pthread_rwlock_trywrlock(pthread_rwlock_t* l) { return mx_trylock((uintptr_t)l, false); }
int xs_pthread_rwlock_unlock(pthread_rwlock_t* l) { return mx_unlock((uintptr_t)l); }
// C11 <threads.h>
int xs_mtx_init(void* m, int type) { g_mx[(uintptr_t)m] = Mx(); g_mx[(uintptr_t)m].depth = (type & 1) ? -1000 : 0; return 0; }
void xs_mtx_destroy(void* m) { g_mx.erase((uintptr_t)m); }
int xs_mtx_lock(void* m) { mx_lock((uintptr_t)m, true, "mtx_lock"); return 0; }
int xs_mtx_trylock(void* m) { return mx_trylock((uintptr_t)m, true) == 0 ? 0 : 1; }
int xs_mtx_unlock(void* m) { mx_unlock((uintptr_t)m); return 0; }
// condition variables: wait releases the baton; a wait nobody can ever signal is a deadlock
int xs_pthread_cond_init(pthread_cond_t* c, const pthread_condattr_t*) { g_cv[(uintptr_t)c] = Cv(); return 0; }
int xs_pthread_cond_destroy(pthread_cond_t* c) { g_cv.erase((uintptr_t)c); return 0; }
int xs_pthread_cond_wait(pthread_cond_t* c, pthread_mutex_t* m) {
  int me = me_id();
  if (!g_threads_mode) {
    violation("deadlock", SH->cur_fn, "condition wait with a single thread");
    child_exit(0);
  }
  mx_unlock((uintptr_t)m);
  g_cv[(uintptr_t)c].waiting[me % MAXTASK] = 1;
  while (g_cv[(uintptr_t)c].waiting[me % MAXTASK]) task_block((uintptr_t)c);
  return mx_lock((uintptr_t)m, mx_recursive(m), "cond_relock");
}
int xs_pthread_cond_timedwait(pthread_cond_t* c, pthread_mutex_t* m, const struct timespec*) {
  // no simulated clock exists: a timed wait yields once and then reports a timeout unless it was signalled
  int me = me_id();
  if (!g_threads_mode) return ETIMEDOUT;
  mx_unlock((uintptr_t)m);
  g_cv[(uintptr_t)c].waiting[me % MAXTASK] = 1;
  sched_visible("cond_timedwait");
  bool signalled = !g_cv[(uintptr_t)c].waiting[me % MAXTASK];
  g_cv[(uintptr_t)c].waiting[me % MAXTASK] = 0;
  mx_lock((uintptr_t)m, mx_recursive(m), "cond_relock");
  return signalled ? 0 : ETIMEDOUT;
}
static int cv_wake(pthread_cond_t* c, bool all) {
  sched_visible("cond_signal");
  Cv& v = g_cv[(uintptr_t)c];
  for (int i = 0; i < MAXTASK; i++)
    if (v.waiting[i]) { v.waiting[i] = 0; if (!all) break; }
  wake((uintptr_t)c);
  return 0;
}
int xs_pthread_cond_signal(pthread_cond_t* c) { return cv_wake(c, false); }
int xs_pthread_cond_broadcast(pthread_cond_t* c) { return cv_wake(c, true); }
void xs_call_once(void* flag, void (*fn)(void));
int xs_pthread_once(pthread_once_t* c, void (*fn)(void)) {
  sched_visible("once");
  Once& o = g_once[(uintptr_t)c];
  int me = me_id();
  while (o.state == 1 && o.owner != me) {
    if (!g_threads_mode) break;
    task_block((uintptr_t)c);
  }
  if (o.state == 2) { vc_acquire(o.vc); return 0; }
  if (o.state == 0) {
    o.state = 1;
    o.owner = me;
    fn();
    Once& o2 = g_once[(uintptr_t)c];
    vc_release(o2.vc);
    o2.state = 2;
    wake((uintptr_t)c);
  }
  return 0;
}
void xs_call_once(void* flag, void (*fn)(void)) { xs_pthread_once((pthread_once_t*)flag, fn); }

// ---- thread-specific data.  Keys live in the simulator: glibc would run the destructors while the thread dies, after
// it has handed the baton on, i.e. outside the scheduler's control; here they run at the end of the task body
// (task_thread_exit), as one more piece of library code executed by that task.
struct TsdKey { bool used = false; void (*dtor)(void*) = nullptr; };
static TsdKey g_keys[32];
int xs_pthread_key_create(pthread_key_t* key, void (*dtor)(void*)) {
  sched_visible("key_create");
  for (unsigned k = 0; k < 32; k++)
    if (!g_keys[k].used) {
      g_keys[k].used = true; g_keys[k].dtor = dtor;
      for (Task* t : T) t->ctx.tsd[k] = nullptr;
      if (t_task) t_task->tsd[k] = nullptr;
      *key = (pthread_key_t)k;
      return 0;
    }
  return EAGAIN;
}
int xs_pthread_key_delete(pthread_key_t key) { if (key >= 32 || !g_keys[key].used) return EINVAL; g_keys[key].used = false; g_keys[key].dtor = nullptr; return 0; }
int xs_pthread_setspecific(pthread_key_t key, const void* v) { if (key >= 32 || !g_keys[key].used) return EINVAL; t_task->tsd[key] = (void*)v; return 0; }
void* xs_pthread_getspecific(pthread_key_t key) { return key < 32 && g_keys[key].used ? t_task->tsd[key] : nullptr; }
int xs_tss_create(pthread_key_t* key, void (*dtor)(void*)) { return xs_pthread_key_create(key, dtor) == 0 ? 0 /* thrd_success */ : 2 /* thrd_error */; }
void xs_tss_delete(pthread_key_t key) { xs_pthread_key_delete(key); }
int xs_tss_set(pthread_key_t key, void* v) { return xs_pthread_setspecific(key, v) == 0 ? 0 : 2; }
void* xs_tss_get(pthread_key_t key) { return xs_pthread_getspecific(key); }
}
namespace xs {
void tsd_reset() { for (auto& k : g_keys) k = TsdKey(); }
void task_thread_exit() {
  TaskCtx* t = t_task;
  if (!t) return;
  for (int round = 0; round < 4; round++) {   // PTHREAD_DESTRUCTOR_ITERATIONS
    bool again = false;
    for (unsigned k = 0; k < 32; k++) {
      void* v = t->tsd[k];
      if (!v || !g_keys[k].used || !g_keys[k].dtor) continue;
      t->tsd[k] = nullptr;
      logf("TSD t%d destructor key %u", t->id, k);
      g_keys[k].dtor(v);
      again = true;
    }
    if (!again) break;
  }
}
}
extern "C" {
}
