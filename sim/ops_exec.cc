// Op execution against the real library, reference model of crystal collections, per-op monitors.
#include "ops.h"
#include <algorithm>
#include <errno.h>
#include <fenv.h>
#include <signal.h>
#include <stdio_ext.h>
#include <locale.h>
#include <math.h>
#include <stdlib.h>
#include <string.h>
#include <sys/stat.h>
#include <unistd.h>

extern "C" {
#include "xraylib.h"
#include "xraylib-deprecated.h"
extern Crystal_Array Crystal_arr;
xrl_error* xrl_error_new_literal(xrl_error_code code, const char* message);
xrl_error* xrl_error_new(xrl_error_code code, const char* format, ...);
#include "xraylib-aux.h"
void Crystal_F_H_StructureFactor2(Crystal_Struct* crystal, double energy, int i_miller, int j_miller, int k_miller, double debye_factor, double rel_angle, xrlComplex* result, xrl_error** error);
void Crystal_F_H_StructureFactor_Partial2(Crystal_Struct* crystal, double energy, int i_miller, int j_miller, int k_miller, double debye_factor, double rel_angle, int f0_flag, int f_prime_flag, int f_prime2_flag, xrlComplex* result, xrl_error** error);
}

namespace xs {

#define XQ_DECLS
#include "gen_queries.inc"
#undef XQ_DECLS
#define XQ_TABLE
const QueryDef g_queries[] = {
#include "gen_queries.inc"
};
#undef XQ_TABLE
const int g_nqueries = sizeof g_queries / sizeof g_queries[0];

struct QArgs { int i[4]; double d[12]; const char* s; };
struct QRet { double d0 = 0, d1 = 0; };

static QRet call_query(const QueryDef& q, const QArgs& a, xrl_error** err) {
  QRet r;
  void* fn = q.fn;
  switch (q.shape_id) {
#define XQ_CALL
#include "gen_queries.inc"
#undef XQ_CALL
    default: break;
  }
  return r;
}

// ------------------------------------------------------------------ digest
struct Dg {
  uint64_t h = 0xcbf29ce484222325ULL;
  void u64(uint64_t v) { for (int i = 0; i < 8; i++) { h ^= (v >> (8 * i)) & 0xff; h *= 1099511628211ULL; } }
  void dbl(double d) { uint64_t v; memcpy(&v, &d, 8); u64(v); }
  void i32(int v) { u64((uint64_t)(uint32_t)v); }
  void str(const char* s) { if (!s) { u64(0xdeadULL); return; } for (; *s; ++s) { h ^= (unsigned char)*s; h *= 1099511628211ULL; } u64(0x55); }
};

static void dg_compound(Dg& g, const struct compoundData* c) {
  g.i32(c->nElements); g.dbl(c->nAtomsAll); g.dbl(c->molarMass);
  for (int i = 0; i < c->nElements; i++) { g.i32(c->Elements[i]); g.dbl(c->massFractions[i]); g.dbl(c->nAtoms[i]); }
}
static void dg_nist(Dg& g, const struct compoundDataNIST* c) {
  g.str(c->name); g.i32(c->nElements); g.dbl(c->density);
  for (int i = 0; i < c->nElements; i++) { g.i32(c->Elements[i]); g.dbl(c->massFractions[i]); }
}
static void dg_rn(Dg& g, const struct radioNuclideData* c) {
  g.str(c->name); g.i32(c->Z); g.i32(c->A); g.i32(c->N); g.i32(c->Z_xray); g.i32(c->nXrays); g.i32(c->nGammas);
  for (int i = 0; i < c->nXrays; i++) { g.i32(c->XrayLines[i]); g.dbl(c->XrayIntensities[i]); }
  for (int i = 0; i < c->nGammas; i++) { g.dbl(c->GammaEnergies[i]); g.dbl(c->GammaIntensities[i]); }
}
static void dg_crystal(Dg& g, const Crystal_Struct* c) {
  g.str(c->name); g.dbl(c->a); g.dbl(c->b); g.dbl(c->c); g.dbl(c->alpha); g.dbl(c->beta); g.dbl(c->gamma); g.dbl(c->volume);
  g.i32(c->n_atom);
  for (int i = 0; i < c->n_atom; i++) { g.i32(c->atom[i].Zatom); g.dbl(c->atom[i].fraction); g.dbl(c->atom[i].x); g.dbl(c->atom[i].y); g.dbl(c->atom[i].z); }
}
static int dg_strlist(Dg& g, char** l) {
  int n = 0;
  for (; l[n]; n++) g.str(l[n]);
  g.i32(n);
  return n;
}

// Dead stack slots below the frame that calls the library hold one known byte (plan field `fill`, default 0xa5)
// instead of whatever the harness left there -- leftovers contain pointers, which differ from process to process, so a
// library that reads an uninitialised local would otherwise make runs irreproducible instead of wrong.  Every call
// into the library is written L(call).
static thread_local int t_scrub_byte = 0xa5;
__attribute__((noinline, no_sanitize("address"))) static void scrub_op_stack() {
  char pad[24 * 1024];
  memset(pad, g_fill_byte ? g_fill_byte : t_scrub_byte, sizeof pad);
  __asm__ volatile("" : : "r"(pad) : "memory");
}
// ... and with the errno value the plan gives the caller at that moment (plan field `errno_mode`): a fresh process has
// errno 0, a real caller has whatever its last failed system call left there; no result may depend on it.
static thread_local int t_errno_preset = 0;
// ... and likewise the sticky IEEE exception flags: clear in a fresh process, but any earlier computation of the caller
// (0.0/0.0, an overflowing pow, strtod("1e999")) may have left them set, and nothing may depend on that.
static thread_local int t_fpflags_preset = 0;
static inline void preset_fp_flags() { feclearexcept(FE_ALL_EXCEPT); if (t_fpflags_preset) feraiseexcept(t_fpflags_preset); }
#define L(...) (scrub_op_stack(), preset_fp_flags(), errno = t_errno_preset, (__VA_ARGS__))

// ------------------------------------------------------------------ harness-owned crystal structs
// Caller-built crystals live in ONE fixed slot per task: every crystal a task passes in has the same address as
// the previous one, as happens in real programs that reuse a stack variable or get a freed block back from malloc
// (ASan's quarantine would otherwise hide every bug that keys a cache on the address of a caller's struct).
static Crystal_Struct g_own_slot[MAXTASK];
struct OwnCrystal {
  Crystal_Struct& cs;
  OwnCrystal(const CrystalData& d) : cs(g_own_slot[(t_task ? t_task->id : 0) % MAXTASK]) {
    cs.name = d.name_null ? nullptr : strdup(d.name.c_str());
    cs.a = d.cell[0]; cs.b = d.cell[1]; cs.c = d.cell[2]; cs.alpha = d.cell[3]; cs.beta = d.cell[4]; cs.gamma = d.cell[5];
    cs.volume = d.model_volume();
    cs.n_atom = (int)d.atoms.size();
    cs.atom = (Crystal_Atom*)calloc(d.atoms.size(), sizeof(Crystal_Atom));   // exact: no slack element behind an empty list
    for (size_t i = 0; i < d.atoms.size(); i++) {
      cs.atom[i].Zatom = d.atoms[i].Z; cs.atom[i].fraction = d.atoms[i].frac;
      cs.atom[i].x = d.atoms[i].x; cs.atom[i].y = d.atoms[i].y; cs.atom[i].z = d.atoms[i].z;
    }
  }
  void scribble() {  // the caller may reuse its struct right after the call
    if (cs.name) for (char* p = cs.name; *p; ++p) *p = '~';
    for (int i = 0; i < cs.n_atom; i++) { cs.atom[i].Zatom = -7; cs.atom[i].x = -1e9; cs.atom[i].fraction = -3; }
    cs.a = cs.b = cs.c = -1; cs.alpha = cs.beta = cs.gamma = -2; cs.volume = -5; cs.n_atom = 1 << 20;
  }
  ~OwnCrystal() { free(cs.name); free(cs.atom); }
};

static bool same_bits(double a, double b) { return memcmp(&a, &b, 8) == 0; }

// compare a library crystal with the model's expectation; returns "" or a description of the first difference
static std::string diff_crystal(const Crystal_Struct* c, const CrystalData& d, bool check_volume) {
  char b[256];
  if (!c->name) return "name is NULL";
  if (d.name != c->name) { snprintf(b, sizeof b, "name '%s' != '%s'", c->name, d.name.c_str()); return b; }
  const double got[6] = {c->a, c->b, c->c, c->alpha, c->beta, c->gamma};
  for (int k = 0; k < 6; k++)
    if (!same_bits(got[k], d.cell[k])) { snprintf(b, sizeof b, "cell[%d] %.17g != %.17g", k, got[k], d.cell[k]); return b; }
  if (c->n_atom != (int)d.atoms.size()) { snprintf(b, sizeof b, "n_atom %d != %zu", c->n_atom, d.atoms.size()); return b; }
  for (int i = 0; i < c->n_atom; i++) {
    const Crystal_Atom& a = c->atom[i];
    const CAtom& m = d.atoms[i];
    if (a.Zatom != m.Z || !same_bits(a.fraction, m.frac) || !same_bits(a.x, m.x) || !same_bits(a.y, m.y) || !same_bits(a.z, m.z)) {
      snprintf(b, sizeof b, "atom[%d] (%d %.17g %.17g %.17g %.17g) != (%d %.17g %.17g %.17g %.17g)", i, a.Zatom, a.fraction, a.x, a.y, a.z,
               m.Z, m.frac, m.x, m.y, m.z);
      return b;
    }
  }
  if (check_volume && d.volume_comparable()) {
    double mv = d.model_volume();
    if (d.has_pristine_volume && same_bits(c->volume, d.pristine_volume)) {
      // untouched shipped entry (or recomputed below by a successful load into the built-in collection)
    } else if (!(fabs(c->volume - mv) <= 1e-12 * fabs(mv))) { snprintf(b, sizeof b, "volume %.17g != recomputed %.17g", c->volume, mv); return b; }
  }
  return "";
}

static CrystalData data_of(const Crystal_Struct* c) {
  CrystalData d;
  d.name = c->name ? c->name : "";
  d.cell[0] = c->a; d.cell[1] = c->b; d.cell[2] = c->c; d.cell[3] = c->alpha; d.cell[4] = c->beta; d.cell[5] = c->gamma;
  for (int i = 0; i < c->n_atom; i++) d.atoms.push_back(CAtom{c->atom[i].Zatom, c->atom[i].fraction, c->atom[i].x, c->atom[i].y, c->atom[i].z});
  return d;
}

// The model of the built-in collection is the shipped collection as found at the start of the run (read from
// the public struct, no library call).  Its numeric contents are the generator's business (C01/C15); C14 is
// about the collection staying consistent.  The names are cross-checked against data/Crystals.dat.
void init_builtin_model(ArrayModel& m) {
  m.builtin = true;
  m.init_cap = CRYSTALARRAY_MAX;
  m.dict.clear();
  for (int i = 0; i < Crystal_arr.n_crystal && i < CRYSTALARRAY_MAX; i++) {
    const Crystal_Struct* c = &Crystal_arr.crystal[i];
    if (!c->name) continue;
    CrystalData d = data_of(c);
    d.has_pristine_volume = true;
    d.pristine_volume = c->volume;
    m.dict[d.name] = d;
  }
}

Exec::Exec() { init_builtin_model(builtin_model); }
Exec::~Exec() {}

Handle* Exec::find(int id) {
  auto it = handles.find(id);
  if (it != handles.end()) return &it->second;
  if (shared) {
    auto jt = shared->find(id);
    if (jt != shared->end()) return &jt->second;
  }
  return nullptr;
}

static long fd_size(int fd) {
  struct stat st;
  if (fstat(fd, &st) != 0) return -1;
  return (long)st.st_size;
}

// ------------------------------------------------------------------ C14 oracle: collection vs model
static void verify_array(Exec& ex, Crystal_Array* a, ArrayModel& m, const char* after, bool full) {
  const char* site = after;
  if (a->n_crystal != (int)m.dict.size()) {
    violation("model-mismatch", site, "n_crystal=%d but the model holds %zu crystals", a->n_crystal, m.dict.size());
    return;
  }
  if (a->n_alloc < a->n_crystal) { violation("model-mismatch", site, "n_alloc=%d < n_crystal=%d", a->n_alloc, a->n_crystal); return; }
  if (m.builtin && a->n_alloc != CRYSTALARRAY_MAX) { violation("model-mismatch", site, "built-in n_alloc=%d != %d", a->n_alloc, CRYSTALARRAY_MAX); return; }
  int i = 0;
  for (auto& kv : m.dict) {
    const Crystal_Struct* c = &a->crystal[i];
    if (!c->name) { violation("model-mismatch", site, "entry %d has a NULL name", i); return; }
    if (i > 0 && strcmp(a->crystal[i - 1].name, c->name) >= 0) {
      violation("model-mismatch", site, "entries %d,%d not strictly ascending ('%s','%s')", i - 1, i, a->crystal[i - 1].name, c->name);
      return;
    }
    std::string d = diff_crystal(c, kv.second, true);
    if (!d.empty()) { violation("model-mismatch", site, "entry %d ('%s'): %s", i, kv.first.c_str(), d.c_str()); return; }
    i++;
  }
  if (!full) return;
  // observational equivalence through the public lookups
  int saved_kind = SH->cur_op_kind;
  Crystal_Array* arg = m.builtin ? nullptr : a;
  {
    int n = -1;
    xrl_error* e = nullptr;
    char** l = L(Crystal_GetCrystalsList(arg, &n, &e));
    if (!l || e) {
      violation("model-mismatch", "Crystal_GetCrystalsList", "list failed after %s: %s", after, e && e->message ? e->message : "no error");
      if (e) L(xrl_error_free(e));
    } else {
      if (n != (int)m.dict.size()) violation("model-mismatch", "Crystal_GetCrystalsList", "count %d != %zu after %s", n, m.dict.size(), after);
      int k = 0;
      for (auto& kv : m.dict) {
        if (!l[k]) { violation("model-mismatch", "Crystal_GetCrystalsList", "list ends at %d, expected %zu names", k, m.dict.size()); break; }
        if (kv.first != l[k]) { violation("model-mismatch", "Crystal_GetCrystalsList", "list[%d]='%s' expected '%s'", k, l[k], kv.first.c_str()); break; }
        k++;
      }
      if (k == (int)m.dict.size() && l[k] != nullptr) violation("model-mismatch", "Crystal_GetCrystalsList", "list not NULL-terminated at %d", k);
      for (int j = 0; l[j]; j++) L(xrlFree(l[j]));
      L(xrlFree(l));
    }
  }
  size_t total = m.dict.size(), step = total <= 60 ? 1 : total / 8, idx = 0;
  size_t phase = step > 1 ? (size_t)ex.seq % step : 0;
  for (auto& kv : m.dict) {
    if (step > 1 && idx++ % step != phase) continue;
    xrl_error* e = nullptr;
    Crystal_Struct* c = L(Crystal_GetCrystal(kv.first.c_str(), arg, &e));
    if (!c) {
      violation("model-mismatch", "Crystal_GetCrystal", "'%s' not retrievable after %s: %s", kv.first.c_str(), after, e && e->message ? e->message : "no error");
    } else {
      std::string d = diff_crystal(c, kv.second, true);
      if (!d.empty()) violation("model-mismatch", "Crystal_GetCrystal", "'%s' after %s: %s", kv.first.c_str(), after, d.c_str());
      if (e) violation("model-mismatch", "Crystal_GetCrystal", "'%s' returned together with an error", kv.first.c_str());
      L(Crystal_Free(c));
    }
    if (e) L(xrl_error_free(e));
  }
  {
    xrl_error* e = nullptr;
    Crystal_Struct* c = L(Crystal_GetCrystal("\x01no-such-crystal\x7f", arg, &e));
    if (c) { violation("model-mismatch", "Crystal_GetCrystal", "absent name returned a crystal"); Crystal_Free(c); }
    else if (!e) violation("model-mismatch", "Crystal_GetCrystal", "absent name returned NULL without an error");
    if (e) L(xrl_error_free(e));
  }
  SH->cur_op_kind = saved_kind;
}

// after an accepted file outside the strict dialect: the collection must still be internally consistent,
// every old entry intact (or replaced by an entry of the file carrying the same name); new entries are learnt.
static void learn_array(Crystal_Array* a, ArrayModel& m, const std::vector<CrystalData>& filec, const char* site) {
  std::map<std::string, CrystalData> nd;
  for (int i = 0; i < a->n_crystal; i++) {
    const Crystal_Struct* c = &a->crystal[i];
    if (!c->name) { violation("model-mismatch", site, "entry %d has a NULL name after an accepted load", i); return; }
    if (i > 0 && strcmp(a->crystal[i - 1].name, c->name) >= 0) {
      violation("model-mismatch", site, "after an accepted load entries %d,%d are not strictly ascending ('%s','%s')", i - 1, i, a->crystal[i - 1].name, c->name);
      return;
    }
    if (c->n_atom < 0 || (c->n_atom > 0 && !c->atom)) { violation("model-mismatch", site, "entry '%s' has n_atom=%d atom=%p", c->name, c->n_atom, (void*)c->atom); return; }
    auto it = m.dict.find(c->name);
    if (it != m.dict.end()) {
      std::string d = diff_crystal(c, it->second, true);
      if (!d.empty()) {
        bool replaced = false;
        for (auto& f : filec)
          if (f.name == c->name && diff_crystal(c, f, true).empty()) replaced = true;
        if (!replaced) { violation("model-mismatch", site, "pre-existing entry '%s' changed by a load: %s", c->name, d.c_str()); return; }
      }
    }
    CrystalData d = data_of(c);
    nd[d.name] = d;
  }
  for (auto& kv : m.dict)
    if (!nd.count(kv.first)) { violation("model-mismatch", site, "pre-existing entry '%s' vanished after an accepted load", kv.first.c_str()); return; }
  m.dict.swap(nd);
  m.learned = true;
}

// ------------------------------------------------------------------ C16 monitors
// Process state other than memory ("leave no trace"): judged by its value after the call, so a call that changes
// something and puts it back is fine.  Cheap items after every op, the rest at checkpoints (every 32nd op and at the
// end of the run -- the minimiser then isolates the call).
struct ProcState {
  unsigned mxcsr_ctl = 0;      // SSE control bits: rounding, exception masks, FTZ/DAZ (status flags excluded)
  unsigned short x87cw = 0;
  int lowest_free_fd = -1;     // a descriptor left open takes the lowest free number
  size_t out_buf = 0, err_buf = 0;
  int out_lbf = 0, err_lbf = 0;
  uint64_t env_hash = 0;
  char cwd[512] = {0};
  mode_t mask = 0;
  void* handler[32] = {nullptr};
  bool captured = false;
};
static ProcState g_ps;
static unsigned read_mxcsr() { unsigned v; __asm__ volatile("stmxcsr %0" : "=m"(v)); return v & 0xffc0u; }
static unsigned short read_x87cw() { unsigned short v; __asm__ volatile("fnstcw %0" : "=m"(v)); return v; }
static int lowest_free_fd() { int fd = dup(0); if (fd >= 0) close(fd); return fd; }
static uint64_t env_hash() {
  uint64_t h = 1469598103934665603ull;
  for (char** e = environ; e && *e; e++) { for (const char* q = *e; *q; q++) h = (h ^ (unsigned char)*q) * 1099511628211ull; h = (h ^ 0xff) * 1099511628211ull; }
  return h;
}
static void procstate_read(ProcState& s, bool full) {
  s.mxcsr_ctl = read_mxcsr(); s.x87cw = read_x87cw(); s.lowest_free_fd = lowest_free_fd();
  // buffering MODE as setvbuf selects it (glibc: _IO_UNBUFFERED 0x2, _IO_LINE_BUF 0x200); buffer sizes change lazily at first use
  s.out_buf = 0; s.err_buf = 0; s.out_lbf = stdout->_flags & 0x202; s.err_lbf = stderr->_flags & 0x202;
  s.env_hash = env_hash();
  if (!getcwd(s.cwd, sizeof s.cwd)) s.cwd[0] = 0;
  if (full) {
    s.mask = umask(0); umask(s.mask);
    for (int sig = 1; sig < 32; sig++) { struct sigaction sa; s.handler[sig] = sigaction(sig, nullptr, &sa) == 0 ? (void*)sa.sa_handler : nullptr; }
  }
}
void procstate_capture() { procstate_read(g_ps, true); g_ps.captured = true; }
static void procstate_check(const char* fn, bool full) {
  if (!g_ps.captured) return;
  ProcState n;
  procstate_read(n, full);
  if (n.mxcsr_ctl != g_ps.mxcsr_ctl || n.x87cw != g_ps.x87cw) {
    violation("global-state", fn, "floating-point control state changed: MXCSR control %04x -> %04x, x87 control word %04x -> %04x (rounding mode, exception masks, flush-to-zero)",
              g_ps.mxcsr_ctl, n.mxcsr_ctl, g_ps.x87cw, n.x87cw);
    unsigned full_mx; __asm__ volatile("stmxcsr %0" : "=m"(full_mx)); full_mx = (full_mx & 0x3fu) | g_ps.mxcsr_ctl; __asm__ volatile("ldmxcsr %0" : : "m"(full_mx));
    __asm__ volatile("fldcw %0" : : "m"(g_ps.x87cw));
  }
  if (n.lowest_free_fd != g_ps.lowest_free_fd) {
    violation("global-state", fn, "a file descriptor is left open (or a standard one was closed): lowest free descriptor %d -> %d", g_ps.lowest_free_fd, n.lowest_free_fd);
    g_ps.lowest_free_fd = n.lowest_free_fd;
  }
  if (n.out_buf != g_ps.out_buf || n.err_buf != g_ps.err_buf || n.out_lbf != g_ps.out_lbf || n.err_lbf != g_ps.err_lbf) {
    violation("global-state", fn, "buffering mode of a standard stream changed (stdout flags %03x -> %03x, stderr %03x -> %03x)", g_ps.out_lbf, n.out_lbf, g_ps.err_lbf, n.err_lbf);
    g_ps.out_buf = n.out_buf; g_ps.err_buf = n.err_buf; g_ps.out_lbf = n.out_lbf; g_ps.err_lbf = n.err_lbf;
  }
  if (n.env_hash != g_ps.env_hash) { violation("global-state", fn, "the environment (environ) changed"); g_ps.env_hash = n.env_hash; }
  if (strcmp(n.cwd, g_ps.cwd)) {
    violation("global-state", fn, "working directory is '%s' after the call, was '%s'", n.cwd, g_ps.cwd);
    if (chdir(g_ps.cwd) != 0) snprintf(g_ps.cwd, sizeof g_ps.cwd, "%s", n.cwd);
  }
  if (full) {
    if (n.mask != g_ps.mask) { violation("global-state", "(since last checkpoint)", "umask %03o -> %03o", (unsigned)g_ps.mask, (unsigned)n.mask); umask(g_ps.mask); }
    for (int sig = 1; sig < 32; sig++)
      if (n.handler[sig] != g_ps.handler[sig]) { violation("global-state", "(since last checkpoint)", "disposition of signal %d changed", sig); g_ps.handler[sig] = n.handler[sig]; }
  }
}
void procstate_final() { procstate_check("(end of run)", true); }

static void purity_monitors(Exec& ex, const Op& op) {
  if (g_table_store_seen) {
    std::string which;
    if (tables_changed(&which))
      violation("table-write", g_table_store_site, "%s stored into %s and the table %s now differs from its pristine contents", SH->cur_fn, g_table_store_where, which.c_str());
    else
      logf("NOTE store into %s left the tables unchanged", g_table_store_where);
    g_table_store_seen = false;
  }
  const char* loc = setlocale(LC_ALL, nullptr);
  if (!loc || g_locale_all != loc) {
    violation("global-state", SH->cur_fn, "process locale is '%s' after the call, was '%s'", loc ? loc : "(null)", g_locale_all.c_str());
    apply_locale(g_locale_cfg);   // blame the call once and put the configuration back for the rest of the run
  }
  if (!t_task->caller_loc && uselocale((locale_t)0) != LC_GLOBAL_LOCALE) {
    violation("global-state", SH->cur_fn, "the calling thread is left with a thread-specific locale after the call");
    uselocale(LC_GLOBAL_LOCALE);
  }
  long so = fd_size(1), se = fd_size(2);
  if (so > 0) violation("global-state", SH->cur_fn, "%ld bytes written to stdout", so);
  if (op.kind == OK_DEPRECATED) ex.stderr_expected = se;
  else if (se != ex.stderr_expected) {
    // the statement exempts deprecation diagnostics: a call that newly announces its deprecation is fine
    char buf[512];
    long n = se - ex.stderr_expected;
    if (n > (long)sizeof buf - 1) n = sizeof buf - 1;
    ssize_t got = n > 0 ? pread(2, buf, (size_t)n, ex.stderr_expected) : 0;
    if (got < 0) got = 0;
    buf[got] = 0;
    for (ssize_t i = 0; i < got; i++) if (buf[i] >= 'A' && buf[i] <= 'Z') buf[i] = (char)(buf[i] + 32);
    if (!strstr(buf, "deprecat"))
      violation("global-state", SH->cur_fn, "%ld bytes written to stderr by a call that is not a deprecation diagnostic", se - ex.stderr_expected);
    ex.stderr_expected = se;
  }
  if (fegetround() != FE_TONEAREST) { violation("global-state", SH->cur_fn, "rounding mode changed"); fesetround(FE_TONEAREST); }
  procstate_check(SH->cur_fn, ex.seq % 32 == 0);
  for (auto& kv : ex.handles) {
    Handle& h = kv.second;
    if (h.type != HT_ERROR || !h.p) continue;
    xrl_error* e = (xrl_error*)h.p;
    if ((int)e->code != h.err_code || !e->message || h.err_msg != e->message)
      violation("error-mutated", SH->cur_fn, "error object from op %d changed: code %d->%d msg '%s'->'%s'", kv.first, h.err_code, (int)e->code,
                h.err_msg.c_str(), e->message ? e->message : "(null)");
    if (ex.seq - h.born == 10) SH->probes[PR_ERR_ALIVE_10]++;
  }
}

// ------------------------------------------------------------------ op execution
static const char* op_fn_name(const Op& op) {
  switch (op.kind) {
    case OK_Q: case OK_CR_MATH: case OK_DEPRECATED: return op.fn.c_str();
    case OK_PARSE: return "CompoundParser";
    case OK_ADDCD: return "add_compound_data";
    case OK_NIST_NAME: return "GetCompoundDataNISTByName";
    case OK_NIST_IDX: return "GetCompoundDataNISTByIndex";
    case OK_NIST_LIST: return "GetCompoundDataNISTList";
    case OK_RN_NAME: return "GetRadioNuclideDataByName";
    case OK_RN_IDX: return "GetRadioNuclideDataByIndex";
    case OK_RN_LIST: return "GetRadioNuclideDataList";
    case OK_A2S: return "AtomicNumberToSymbol";
    case OK_S2A: return "SymbolToAtomicNumber";
    case OK_ERR_COPY: return "xrl_error_copy";
    case OK_ERR_NEW: return "xrl_error_new_literal";
    case OK_MISC: return op.fn.c_str();
    case OK_ERR_MATCH: return "xrl_error_matches";
    case OK_ERR_PROP: return "xrl_propagate_error";
    case OK_ERR_CLEAR: return "xrl_clear_error";
    case OK_CA_INIT: return "Crystal_ArrayInit";
    case OK_CA_ADD: case OK_CA_FILL: return "Crystal_AddCrystal";
    case OK_CA_READ: return "Crystal_ReadFile";
    case OK_CA_GET: return "Crystal_GetCrystal";
    case OK_CA_LIST: return "Crystal_GetCrystalsList";
    case OK_CR_COPY: return "Crystal_MakeCopy";
    case OK_CR_MUT: return "(mutate copy)";
    case OK_ATOMFAC: return "Atomic_Factors";
    case OK_FREE: return "(free)";
    case OK_INIT: return "XRayInit";
    default: return "?";
  }
}

struct AddOutcome { int ret; bool had_err; };

// one Crystal_AddCrystal with the model's verdict (deep mode) — shared by CA_ADD and CA_FILL
static AddOutcome do_add(Exec& ex, Crystal_Array* arr, ArrayModel* m, const CrystalData* d, xrl_error** ep, bool deep) {
  AddOutcome out{0, false};
  Crystal_Array* actual = arr ? arr : &Crystal_arr;
  int before_n = actual->n_crystal, before_alloc = actual->n_alloc;
  int ret;
  if (!d) {
    ret = L(Crystal_AddCrystal(nullptr, arr, ep));
  } else {
    OwnCrystal oc(*d);
    oc.cs.volume = 777.25;   // the collection must store the volume it recomputes, not whatever the caller's struct says
    ret = L(Crystal_AddCrystal(&oc.cs, arr, ep));
    oc.scribble();
  }
  out.ret = ret;
  out.had_err = ep && *ep;
  bool fired = op_fault_fired();
  if (m && deep) {
    int expect;
    const char* why;
    if (!d) { expect = 0; why = "NULL crystal"; }
    else if (m->dict.count(d->name)) { expect = 0; why = "duplicate name"; }
    else if (m->builtin && (int)m->dict.size() >= CRYSTALARRAY_MAX) { expect = 0; why = "built-in collection full"; }
    else { expect = 1; why = "fresh name"; }
    if (fired && ret == 0) {
      // handled allocation failure: rejected, collection must be unchanged (verified by the caller's verify_array)
    } else if (fired) {
      // swallowed: not judged
    } else if (expect == 1 && ret == 0 && d && !d->plain()) {
      // an unusual crystal (odd name, no atoms, degenerate cell, element without data ...) may be refused -- cleanly:
      // with an error, and with the collection unchanged (verified against the model right after the op)
      if (ep && !*ep) violation("model-mismatch", "Crystal_AddCrystal", "unusual crystal rejected without an error");
    } else if (ret != expect) {
      violation("model-mismatch", "Crystal_AddCrystal", "returned %d, model expects %d (%s; size %zu, n_alloc %d)", ret, expect, why, m->dict.size(), before_alloc);
    } else if (ep && expect == 0 && !*ep) {
      violation("model-mismatch", "Crystal_AddCrystal", "rejected (%s) without an error", why);
    } else if (ep && expect == 1 && *ep) {
      violation("model-mismatch", "Crystal_AddCrystal", "accepted but an error was set: %s", (*ep)->message ? (*ep)->message : "");
    }
    if (expect == 0 && ret == 0 && d && m->dict.count(d->name)) SH->probes[PR_DUP_REJECTED]++;
    if (expect == 0 && ret == 0 && d && m->builtin && (int)m->dict.size() >= CRYSTALARRAY_MAX) SH->probes[PR_BUILTIN_FULL]++;
  }
  if (ret == 1 && d && m) m->dict[d->name] = *d;
  if (ret == 1 && before_n == before_alloc) { SH->probes[PR_AT_CAPACITY]++; if (arr) SH->probes[PR_GROWTH]++; }
  if (before_alloc == 0 && arr) SH->probes[PR_ARRAY_ZERO_CAP]++;
  return out;
}

// String arguments reach the library in a block of exactly strlen+1 bytes: a read one byte before the first or past
// the terminating NUL then lands in an ASan redzone.  (std::string keeps short strings inside the object and longer
// ones in blocks with spare capacity, where such a read would go unnoticed.)
// Default: a fresh heap block per argument (exact on both sides; the address never repeats because of ASan's
// quarantine).  In allocator-reuse runs (plan field `reuse`): the caller "reuses its buffer" -- the string is
// right-aligned against the end of one fixed arena per (task, argument position), the rest of the arena is poisoned.
// Strings of equal length then have equal addresses, which is what exposes state keyed on a caller's pointer; the
// byte after the NUL is still a redzone (the bytes before the string only down to the 8-byte granule boundary).
extern "C" void __asan_poison_memory_region(void const volatile* addr, size_t size);
extern "C" void __asan_unpoison_memory_region(void const volatile* addr, size_t size);
struct ExactStr {
  enum { ARENA = 8192, RZ = 64 };
  char* p = nullptr;
  bool pooled = false;
  size_t len = 0;
  static char* arena(int task, int which) {
    static char* a[MAXTASK][3];
    char*& r = a[task % MAXTASK][which % 3];
    if (!r) { r = (char*)aligned_alloc(64, ARENA + RZ); __asan_poison_memory_region(r, ARENA + RZ); }
    return r;
  }
  ExactStr(const char* s, size_t n, bool null, int which) : len(n) {
    if (null) return;
    if (g_reuse_mode && n + 1 <= ARENA) {
      char* a = arena(t_task ? t_task->id : 0, which);
      p = a + ARENA - (n + 1);
      pooled = true;
      __asan_unpoison_memory_region(p, n + 1);
    } else p = (char*)malloc(n + 1);
    memcpy(p, s, n);
    p[n] = 0;
  }
  ~ExactStr() {
    if (!p) return;
    if (pooled) { memset(p, '~', len + 1); __asan_poison_memory_region(p - ((uintptr_t)p & 7), len + 1 + ((uintptr_t)p & 7)); }
    else free(p);
  }
  ExactStr(const ExactStr&) = delete;
  ExactStr& operator=(const ExactStr&) = delete;
};

void Exec::run_op(const Op& op) {
  if (stopped) return;
  int pos = seq++;
  const char* fname = op_fn_name(op);
  op_begin(task, op.id, op.kind, fname);
  logf("O t%d #%d %s %s", task, op.id, kOpNames[op.kind], fname);
  xrl_error* e = nullptr;
  xrl_error** ep = op.slot ? &e : nullptr;
  bool failed_sentinel = false, executed = true;
  bool deep = hooks.deep_crystal_checks;
  Dg g;
  Handle nh;  // handle produced by this op, if any
  Crystal_Array* touched = nullptr;
  ArrayModel* touched_model = nullptr;
  bool touched_modified = false;
  {
    static const int kErrnos[] = {0, ERANGE, ENOMEM, EINTR, EDOM, EINVAL, ENOENT, EAGAIN, EILSEQ, ERANGE};
    t_errno_preset = hooks.errno_mode ? kErrnos[((unsigned)op.id * 2654435761u >> 7) % (sizeof kErrnos / sizeof kErrnos[0])] : 0;
    static const int kFlags[] = {0, FE_INVALID, FE_OVERFLOW, FE_DIVBYZERO, FE_INEXACT | FE_UNDERFLOW, FE_ALL_EXCEPT, 0, FE_INVALID | FE_DIVBYZERO};
    t_fpflags_preset = hooks.errno_mode ? kFlags[((unsigned)op.id * 2246822519u >> 9) % (sizeof kFlags / sizeof kFlags[0])] : 0;
    // purity engine: dead stack slots hold another byte for every op, so that a value read from an uninitialised local
    // differs between the fresh-process reference (op id 1) and the same call inside a history
    t_scrub_byte = hooks.purity_monitors ? (0x80 | (((unsigned)op.id * 37u) & 0x7f)) : 0xa5;
  }
  ExactStr xs_nullable(op.s.data(), op.s.size(), op.snull, 0), xs_always(op.s.data(), op.s.size(), false, 1);
  const char* const S = xs_nullable.p;    // NULL when the op asks for a NULL string
  const char* const S0 = xs_always.p;
  if (op.fail) arm_alloc_fault(op.fail);

  auto array_of = [&](int hid, Crystal_Array** arr, ArrayModel** m) -> bool {
    if (hid == -2) { *arr = nullptr; *m = &builtin_model; return true; }
    Handle* h = find(hid);
    if (!h || h->type != HT_ARRAY || !h->p) return false;
    *arr = (Crystal_Array*)h->p;
    *m = h->am;
    return true;
  };

  switch (op.kind) {
    case OK_Q: {
      const QueryDef* q = query_find(op.fn.c_str());
      if (!q) { executed = false; break; }
      QArgs a;
      memcpy(a.i, op.i, sizeof a.i);
      memcpy(a.d, op.d, sizeof a.d);
      a.s = S;
      if (op.i[3] > 0 && op.d[11] != 0 && q->shape[0] == 'i' && strlen(q->shape) < 12) {
        // energy relative to an absorption edge of this element (the edge is looked up inside the op)
        double edge = L(EdgeEnergy(a.i[0], op.i[3] - 1, nullptr));
        int di = 0;
        for (int j = 0; q->shape[j]; j++) {
          if (q->shape[j] != 'd') continue;
          if (q->cls[j] && (!strcmp(q->cls[j], "E") || !strcmp(q->cls[j], "E0"))) { if (edge > 0) a.d[di] = edge * op.d[11]; break; }
          di++;
        }
        a.i[3] = 0;
        a.d[11] = 0;
      }
      QRet r = L(call_query(*q, a, ep));
      g.dbl(r.d0); g.dbl(r.d1);
      failed_sentinel = r.d0 == 0.0 && r.d1 == 0.0;
      if (op.s.find('(') != std::string::npos && !failed_sentinel) SH->probes[PR_NESTED_FORMULA]++;
      if (strchr(q->shape, 's') && !failed_sentinel && op.s.find(',') != std::string::npos) SH->probes[PR_NIST_FALLBACK]++;
      break;
    }
    case OK_PARSE: {
      struct compoundData* cd = L(CompoundParser(S, ep));
      failed_sentinel = !cd;
      if (!cd && t_task->caller_loc && !op_fault_fired()) SH->probes[PR_PARSE_FAIL_UNDER_TLOC]++;
      if (cd) {
        if (!op_fault_fired()) dg_compound(g, cd);
        if (op.s.find('(') != std::string::npos) SH->probes[PR_NESTED_FORMULA]++;
        bool comma = t_task->caller_loc ? t_task->caller_loc_kind == TLOC_XX || (t_task->caller_loc_kind == TLOC_DUP && g_locale_cfg == LOC_XX) : g_locale_cfg == LOC_XX;
        if (comma && op.s.find('.') != std::string::npos) SH->probes[PR_FRACTION_PARSED_IN_COMMA_LOCALE]++;
        if (t_task->caller_loc) SH->probes[PR_PARSE_UNDER_TLOC]++;
        if (op.selfc && !op_fault_fired()) L(FreeCompoundData(cd));
        else { nh.type = HT_COMPOUND; nh.p = cd; }
      }
      break;
    }
    case OK_ADDCD: {
      Handle* a = find(op.h[0]);
      Handle* b = find(op.h[1]);
      if (!a || !b || a->type != HT_COMPOUND || b->type != HT_COMPOUND) { executed = false; break; }
      struct compoundData* cd = L(add_compound_data(*(struct compoundData*)a->p, op.d[0], *(struct compoundData*)b->p, op.d[1]));
      failed_sentinel = !cd;
      if (cd) { if (!op_fault_fired()) dg_compound(g, cd); nh.type = HT_COMPOUND; nh.p = cd; }
      break;
    }
    case OK_NIST_NAME: case OK_NIST_IDX: {
      struct compoundDataNIST* c = op.kind == OK_NIST_NAME ? L(GetCompoundDataNISTByName(S, ep))
                                                            : L(GetCompoundDataNISTByIndex(op.i[0], ep));
      failed_sentinel = !c;
      if (c) {
        if (!op_fault_fired()) dg_nist(g, c);
        if (op.selfc && !op_fault_fired()) L(FreeCompoundDataNIST(c)); else { nh.type = HT_NIST; nh.p = c; }
      }
      break;
    }
    case OK_RN_NAME: case OK_RN_IDX: {
      struct radioNuclideData* c = op.kind == OK_RN_NAME ? L(GetRadioNuclideDataByName(S, ep))
                                                          : L(GetRadioNuclideDataByIndex(op.i[0], ep));
      failed_sentinel = !c;
      if (c) {
        if (!op_fault_fired()) dg_rn(g, c);
        if (op.selfc && !op_fault_fired()) L(FreeRadioNuclideData(c)); else { nh.type = HT_RN; nh.p = c; }
      }
      break;
    }
    case OK_NIST_LIST: case OK_RN_LIST: case OK_CA_LIST: {
      int n = -12345;
      char** l;
      Crystal_Array* arr = nullptr;
      ArrayModel* m = nullptr;
      if (op.kind == OK_CA_LIST) {
        if (!array_of(op.h[0], &arr, &m)) { executed = false; break; }
        l = L(Crystal_GetCrystalsList(arr, op.i[0] ? &n : nullptr, ep));
      } else if (op.kind == OK_NIST_LIST) l = L(GetCompoundDataNISTList(op.i[0] ? &n : nullptr, ep));
      else l = L(GetRadioNuclideDataList(op.i[0] ? &n : nullptr, ep));
      failed_sentinel = !l;
      if (l) {
        if (op_fault_fired()) { nh.type = HT_STRLIST; nh.p = l; nh.n = -1; break; }
        int cnt = dg_strlist(g, l);
        if (op.i[0]) { g.i32(n); if (n != cnt && deep) violation("model-mismatch", fname, "count %d but %d names listed", n, cnt); }
        if (op.kind == OK_CA_LIST && deep && m) {
          int k = 0;
          bool ok = cnt == (int)m->dict.size();
          for (auto& kv : m->dict) { if (k >= cnt || kv.first != l[k]) { ok = false; break; } k++; }
          if (!ok) violation("model-mismatch", "Crystal_GetCrystalsList", "list of %d names differs from the model's %zu sorted keys", cnt, m->dict.size());
        }
        if (op.selfc) { for (int j = 0; l[j]; j++) L(xrlFree(l[j])); L(xrlFree(l)); }
        else { nh.type = HT_STRLIST; nh.p = l; nh.n = cnt; }
      }
      break;
    }
    case OK_A2S: {
      char* s = L(AtomicNumberToSymbol(op.i[0], ep));
      failed_sentinel = !s;
      if (s) { if (!op_fault_fired()) g.str(s); if (op.selfc && !op_fault_fired()) L(xrlFree(s)); else { nh.type = HT_STRING; nh.p = s; } }
      break;
    }
    case OK_S2A: {
      int z = L(SymbolToAtomicNumber(S, ep));
      g.i32(z);
      failed_sentinel = z == 0;
      break;
    }
    case OK_MISC: {
      if (op.fn == "c_abs") { xrlComplex z = {op.d[0], op.d[1]}; g.dbl(c_abs(z)); }
      else if (op.fn == "c_mul") { xrlComplex x = {op.d[0], op.d[1]}, y = {op.d[2], op.d[3]}; xrlComplex z = c_mul(x, y); g.dbl(z.re); g.dbl(z.im); }
      else if (op.fn == "xrl_malloc") {
        unsigned char* pm = (unsigned char*)L(xrl_malloc((size_t)op.i[0]));
        failed_sentinel = !pm;
        if (pm) { for (int k = 0; k < op.i[0]; k++) pm[k] = (unsigned char)k; g.i32(op.i[0]); L(xrlFree(pm)); }
      }
      else if (op.fn == "xrl_strdup") { char* c = L(xrl_strdup(S0)); failed_sentinel = !c; if (c) { g.str(c); L(xrlFree(c)); } }
      else if (op.fn == "xrl_strndup") { char* c = L(xrl_strndup(S0, (size_t)op.i[0])); failed_sentinel = !c; if (c) { g.str(c); L(xrlFree(c)); } }
      else if (op.fn == "release_nulls") {
        // every release / inspection function that documents (or checks for) a NULL argument
        xrl_error* none = nullptr;
        L(xrl_error_free(nullptr));
        L(xrl_clear_error(nullptr));
        L(xrl_clear_error(&none));
        L(Crystal_Free(nullptr));
        L(Crystal_ArrayFree(nullptr));
        L(xrlFree(nullptr));
        g.i32(L(xrl_error_copy(nullptr)) == nullptr);
        g.i32(L(xrl_error_matches(nullptr, XRL_ERROR_MEMORY)));
      }
      else if (op.fn == "xrl_error_new") {
        xrl_error* c = L(xrl_error_new((xrl_error_code)(op.i[0] % 6), "%s: %d of %g", S0, op.i[0], op.d[0]));
        failed_sentinel = !c;
        if (c) { if (!op_fault_fired()) { g.i32(c->code); g.str(c->message); } L(xrl_error_free(c)); }
      }
      else executed = false;
      break;
    }
    case OK_ERR_NEW: {
      xrl_error* c = L(xrl_error_new_literal((xrl_error_code)op.i[0], S0));
      failed_sentinel = !c;
      if (c) {
        if (!op_fault_fired()) { g.i32(c->code); g.str(c->message); }
        nh.type = HT_ERROR; nh.p = c;
      }
      break;
    }
    case OK_ERR_COPY: {
      Handle* h = find(op.h[0]);
      if (!h || h->type != HT_ERROR || h->shared) { executed = false; break; }
      xrl_error* c = L(xrl_error_copy((xrl_error*)h->p));
      failed_sentinel = !c;
      if (c) {
        if (!op_fault_fired()) { g.i32(c->code); g.str(c->message); }
        nh.type = HT_ERROR; nh.p = c;
      }
      break;
    }
    case OK_ERR_MATCH: {
      Handle* h = find(op.h[0]);
      if (!h || h->type != HT_ERROR) { executed = false; break; }
      g.i32(L(xrl_error_matches((xrl_error*)h->p, (xrl_error_code)op.i[0])));
      break;
    }
    case OK_ERR_PROP: {
      Handle* h = find(op.h[0]);
      if (!h || h->type != HT_ERROR || h->shared) { executed = false; break; }
      xrl_error* src = (xrl_error*)h->p;
      if (op.i[0]) {
        L(xrl_propagate_error(nullptr, src));
      } else {
        xrl_error* dest = nullptr;
        L(xrl_propagate_error(&dest, src));
        if (dest != src && deep) violation("model-mismatch", "xrl_propagate_error", "destination does not hold the source error");
        if (dest) { nh.type = HT_ERROR; nh.p = dest; g.i32(dest->code); g.str(dest->message); }
        SH->probes[PR_ERR_PROPAGATED]++;
      }
      handles.erase(op.h[0]);
      break;
    }
    case OK_ERR_CLEAR: {
      Handle* h = find(op.h[0]);
      if (!h || h->type != HT_ERROR || h->shared) { executed = false; break; }
      xrl_error* slot = (xrl_error*)h->p;
      L(xrl_clear_error(&slot));
      g.i32(slot == nullptr);
      handles.erase(op.h[0]);
      break;
    }
    case OK_CA_INIT: {
      Crystal_Array* a = L(Crystal_ArrayInit(op.i[0], ep));
      failed_sentinel = !a;
      if (deep && !op_fault_fired()) {
        if (op.i[0] < 0 && a) violation("model-mismatch", "Crystal_ArrayInit", "negative capacity %d accepted", op.i[0]);
        if (op.i[0] >= 0 && !a) violation("model-mismatch", "Crystal_ArrayInit", "capacity %d refused", op.i[0]);
      }
      if (a) {
        nh.type = HT_ARRAY; nh.p = a; nh.am = new ArrayModel();
        nh.am->init_cap = op.i[0];
        g.i32(a->n_crystal);
        touched = a; touched_model = nh.am;
      }
      break;
    }
    case OK_CA_ADD: {
      Crystal_Array* arr; ArrayModel* m;
      if (!array_of(op.h[0], &arr, &m)) { executed = false; break; }
      Handle* hh = op.h[0] == -2 ? nullptr : find(op.h[0]);
      if (hh && hh->shared) { executed = false; break; }
      CrystalData d;
      if (!op.i[0]) d = expand_crystal(op.cs);
      AddOutcome o = do_add(*this, arr, m, op.i[0] ? nullptr : &d, ep, deep);
      g.i32(o.ret);
      failed_sentinel = o.ret == 0;
      touched = arr ? arr : &Crystal_arr; touched_model = m; touched_modified = true;
      break;
    }
    case OK_CA_FILL: {
      Crystal_Array* arr; ArrayModel* m;
      if (!array_of(op.h[0], &arr, &m)) { executed = false; break; }
      Handle* hh = op.h[0] == -2 ? nullptr : find(op.h[0]);
      if (hh && hh->shared) { executed = false; break; }
      CrystalData base = expand_crystal(op.cs);
      int okc = 0;
      for (int k = 0; k < op.i[0]; k++) {
        CrystalData d = base;
        char nm[64];
        snprintf(nm, sizeof nm, "f%04d_%d", k, op.id);
        d.name = nm;
        xrl_error* fe = nullptr;
        AddOutcome o = do_add(*this, arr, m, &d, op.slot ? &fe : nullptr, deep);
        okc += o.ret;
        if (fe) { g.i32(fe->code); L(xrl_error_free(fe)); }
        if (op_fault_fired()) break;
        if (deep && k % 32 == 31) verify_array(*this, arr ? arr : &Crystal_arr, *m, "Crystal_AddCrystal", false);
      }
      g.i32(okc);
      touched = arr ? arr : &Crystal_arr; touched_model = m; touched_modified = true;
      break;
    }
    case OK_CA_READ: {
      Crystal_Array* arr; ArrayModel* m;
      if (!array_of(op.h[0], &arr, &m)) { executed = false; break; }
      Handle* hh = op.h[0] == -2 ? nullptr : find(op.h[0]);
      if (hh && hh->shared) { executed = false; break; }
      Crystal_Array* actual = arr ? arr : &Crystal_arr;
      bool wf = false, layout_only = false;
      long data_end = 0;
      std::vector<CrystalData> contents;
      VFile vf;
      char nm[64];
      snprintf(nm, sizeof nm, "vfile_t%d_op%d.dat", task, op.id);
      vf.name = nm;
      vf.content = render_crystal_file(op.fs, &wf, &contents, &data_end, &layout_only);
      vf.open_errno = op.fs.open_errno; vf.eio_at = op.fs.eio_at; vf.trunc_at = op.fs.trunc_at; vf.chunk = op.fs.chunk; vf.unseekable = op.fs.unseekable;
      if (op.fs.mut != FM_NONE) SH->faults[FK_CORRUPT]++;
      vfs_add(vf);
      if (t_task->caller_loc) SH->probes[PR_READFILE_UNDER_TLOC]++;
      long len = (long)vf.content.size();
      bool truncated = vf.trunc_at >= 0 && vf.trunc_at < len;
      bool eio_hits = vf.eio_at >= 0 && vf.eio_at <= (truncated ? vf.trunc_at : len);   // a read at end-of-data position also errors
      enum { MUST_FAIL, MUST_OK, EITHER, EITHER_BUT_FAITHFUL } cls;
      const char* why = "";
      bool collide = false, all_plain = true;
      if (m) for (auto& c : contents) if (m->dict.count(c.name)) collide = true;
      for (auto& c : contents) all_plain = all_plain && c.plain();
      if (op.fs.name_null) { cls = MUST_FAIL; why = "NULL file name"; }
      else if (vf.open_errno) { cls = MUST_FAIL; why = "open fails"; }
      else if (eio_hits && vf.eio_at < data_end && (!truncated || vf.eio_at < vf.trunc_at)) { cls = MUST_FAIL; why = "read error inside the crystal data"; }
      else if (m && m->builtin && wf && !collide && (int)(m->dict.size() + contents.size()) > CRYSTALARRAY_MAX && !truncated && !eio_hits) { cls = MUST_FAIL; why = "would exceed the built-in capacity"; }
      else if (wf && !truncated && !eio_hits && !vf.unseekable && !collide && all_plain) { cls = MUST_OK; why = "well-formed file of ordinary crystals, no fault"; }
      else if ((layout_only || wf) && !truncated && !eio_hits && !vf.unseekable && !collide) { cls = EITHER_BUT_FAITHFUL; why = "layout differs from the shipped dialect, content intact"; }
      else { cls = EITHER; why = "outside the strict dialect / benign fault"; }
      int before_n = actual->n_crystal;
      ExactStr fname_x(nm, strlen(nm), op.fs.name_null != 0, 2);
      int ret = L(Crystal_ReadFile(fname_x.p, arr, ep));
      g.i32(ret);
      failed_sentinel = ret == 0;
      bool fired = op_fault_fired();
      if (vfs_open_streams() != 0)
        violation("stream-leak", "Crystal_ReadFile", "%d stream(s) left open after the call returned %d (%s)", vfs_open_streams(), ret, why);
      if (cls == EITHER_BUT_FAITHFUL && !fired) SH->probes[ret == 1 ? PR_LAYOUT_VARIANT_ACCEPTED : PR_LAYOUT_VARIANT_REJECTED]++;
      if (eio_hits) SH->probes[PR_READ_EIO]++;
      if (ret == 0 && truncated) SH->probes[PR_READ_TRUNC_REJECT]++;
      if (ret == 1 && contents.size() >= 2) SH->probes[PR_READ_OK_MULTI]++;
      if (ret == 1 && vf.chunk > 0 && !contents.empty()) SH->probes[PR_READ_SHORT_OK]++;
      if (ret == 0 && contents.size() >= 2 && !vf.open_errno && !op.fs.name_null) SH->probes[PR_READ_FAIL_AFTER_ONE]++;
      if (ret == 1 && actual->n_crystal > before_n && before_n + (int)contents.size() > (arr ? arr->n_alloc : CRYSTALARRAY_MAX)) SH->probes[PR_GROWTH]++;
      if (m && deep && !fired) {
        if (cls == MUST_FAIL && ret != 0) violation("model-mismatch", "Crystal_ReadFile", "returned %d although %s", ret, why);
        else if (cls == MUST_OK && ret != 1) violation("model-mismatch", "Crystal_ReadFile", "well-formed file with %zu crystals rejected: %s", contents.size(), e && e->message ? e->message : "(no error)");
        else if (ret == 0 && ep && !e) violation("model-mismatch", "Crystal_ReadFile", "failed without an error (%s)", why);
        else if (ret == 1 && ep && e) violation("model-mismatch", "Crystal_ReadFile", "succeeded but an error was set");
      }
      if (m) {
        // accepted files whose content the generator knows (strict dialect, or only the layout differs: line ends, no
        // "#EOF", no final newline, blank line between crystals, over-long comment line) must have added exactly that
        if (ret == 1 && (cls == MUST_OK || cls == EITHER_BUT_FAITHFUL)) { for (auto& c : contents) m->dict[c.name] = c; }
        else if (ret == 1) { if (deep && !fired) learn_array(actual, *m, contents, "Crystal_ReadFile"); else if (!deep) {} }
      }
      touched = actual; touched_model = m; touched_modified = true;
      break;
    }
    case OK_CA_GET: {
      Crystal_Array* arr; ArrayModel* m;
      if (!array_of(op.h[0], &arr, &m)) { executed = false; break; }
      Crystal_Struct* c = L(Crystal_GetCrystal(S, arr, ep));
      failed_sentinel = !c;
      bool fired = op_fault_fired();
      if (c && fired) { nh.type = HT_CRYSTAL; nh.p = c; break; }
      if (m && deep && !fired) {
        bool present = !op.snull && m->dict.count(op.s);
        if (present && !c) violation("model-mismatch", "Crystal_GetCrystal", "'%s' is in the model but was not returned", op.s.c_str());
        if (!present && c) violation("model-mismatch", "Crystal_GetCrystal", "'%s' returned but not in the model", op.snull ? "(null)" : op.s.c_str());
        if (present && c) {
          std::string d = diff_crystal(c, m->dict[op.s], true);
          if (!d.empty()) violation("model-mismatch", "Crystal_GetCrystal", "'%s': %s", op.s.c_str(), d.c_str());
        }
      }
      if (c) {
        dg_crystal(g, c);
        if (op.selfc) L(Crystal_Free(c));
        else {
          nh.type = HT_CRYSTAL; nh.p = c;
          if (m && m->dict.count(op.s)) { nh.cd = m->dict[op.s]; nh.cd_known = true; }
        }
      }
      break;
    }
    case OK_CR_COPY: {
      Crystal_Struct* src = nullptr;
      OwnCrystal* oc = nullptr;
      CrystalData d;
      bool known = false;
      if (op.h[0] >= 0) {
        Handle* h = find(op.h[0]);
        if (!h || h->type != HT_CRYSTAL || !h->p) { executed = false; break; }
        src = (Crystal_Struct*)h->p;
        d = data_of(src); known = true;
      } else if (!op.i[0]) {
        d = expand_crystal(op.cs);
        oc = new OwnCrystal(d);
        src = &oc->cs; known = true;
      }
      double src_volume = src ? src->volume : 0.0;
      Crystal_Struct* c = L(Crystal_MakeCopy(src, ep));
      failed_sentinel = !c;
      if (oc) { oc->scribble(); delete oc; }
      if (c) {
        if (!op_fault_fired()) {
          dg_crystal(g, c);
          if (deep && known) {
            std::string df = diff_crystal(c, d, false);
            if (!df.empty()) violation("model-mismatch", "Crystal_MakeCopy", "copy differs from its source: %s", df.c_str());
            else if (!same_bits(c->volume, src_volume)) violation("model-mismatch", "Crystal_MakeCopy", "copy's volume %.17g differs from the source's %.17g", c->volume, src_volume);
          }
        }
        nh.type = HT_CRYSTAL; nh.p = c; nh.cd = d; nh.cd_known = known;
      }
      break;
    }
    case OK_CR_MUT: {
      Handle* h = find(op.h[0]);
      if (!h || h->type != HT_CRYSTAL || !h->p || h->shared) { executed = false; break; }
      Crystal_Struct* c = (Crystal_Struct*)h->p;
      if ((op.i[0] == 0 || op.i[0] == 3) && c->name) for (char* p = c->name; *p; ++p) *p = '!';
      if (op.i[0] == 1 || op.i[0] == 3) for (int i = 0; i < c->n_atom; i++) { c->atom[i].Zatom = 1 + (i % 90); c->atom[i].x += 0.125; c->atom[i].fraction = 0.5; }
      if (op.i[0] == 2 || op.i[0] == 3) { c->a += 1; c->alpha = 77; c->volume = 1; }
      h->cd_known = false;
      SH->probes[PR_COPY_MUTATED]++;
      // every collection must be unaffected: checked by the deep pass below on all arrays
      touched_modified = true;
      break;
    }
    case OK_CR_MATH: {
      Crystal_Struct* cp = nullptr;
      Crystal_Struct* fetched = nullptr;
      OwnCrystal* oc = nullptr;
      if (op.h[0] >= 0) {
        Handle* h = find(op.h[0]);
        if (!h || h->type != HT_CRYSTAL || !h->p) { executed = false; break; }
        cp = (Crystal_Struct*)h->p;
        if (h->shared) SH->probes[PR_SHARED_CRYSTAL_2TASKS]++;
      } else if (!op.s.empty()) {
        // self-contained form: fetch a shipped crystal by name, use it, release it
        fetched = L(Crystal_GetCrystal(S0, nullptr, nullptr));
        if (!fetched) { executed = false; break; }
        cp = fetched;
        if (op.id % 2) {
          // A caller may keep the struct it was given in a variable of its own (the members stay owned by the copy).
          // Doing so through the per-task slot gives consecutive, different crystals the same address, which the
          // allocator would do in production and ASan's quarantine never does.
          Crystal_Struct& slot = g_own_slot[(t_task ? t_task->id : 0) % MAXTASK];
          slot = *fetched;
          cp = &slot;
        }
      } else if (!op.i[3]) {
        oc = new OwnCrystal(expand_crystal(op.cs));
        cp = &oc->cs;
      }
      double E = op.d[0];
      int hh = op.i[0], kk = op.i[1], ll = op.i[2];
      if (op.fn == "Bragg_angle") { double v = Bragg_angle(cp, E, hh, kk, ll, ep); g.dbl(v); failed_sentinel = v == 0; }
      else if (op.fn == "Q_scattering_amplitude") { double v = Q_scattering_amplitude(cp, E, hh, kk, ll, op.d[2], ep); g.dbl(v); failed_sentinel = v == 0; }
      else if (op.fn == "Crystal_F_H_StructureFactor") { xrlComplex z = L(Crystal_F_H_StructureFactor(cp, E, hh, kk, ll, op.d[1], op.d[2], ep)); g.dbl(z.re); g.dbl(z.im); failed_sentinel = z.re == 0 && z.im == 0; }
      else if (op.fn == "Crystal_F_H_StructureFactor_Partial") { xrlComplex z = L(Crystal_F_H_StructureFactor_Partial(cp, E, hh, kk, ll, op.d[1], op.d[2], (int)op.d[3], (int)op.d[4], (int)op.d[5], ep)); g.dbl(z.re); g.dbl(z.im); failed_sentinel = z.re == 0 && z.im == 0; }
      else if (op.fn == "Crystal_F_H_StructureFactor2") { xrlComplex z = {0, 0}; L(Crystal_F_H_StructureFactor2(cp, E, hh, kk, ll, op.d[1], op.d[2], &z, ep)); g.dbl(z.re); g.dbl(z.im); failed_sentinel = z.re == 0 && z.im == 0; }
      else if (op.fn == "Crystal_F_H_StructureFactor_Partial2") { xrlComplex z = {0, 0}; L(Crystal_F_H_StructureFactor_Partial2(cp, E, hh, kk, ll, op.d[1], op.d[2], (int)op.d[3], (int)op.d[4], (int)op.d[5], &z, ep)); g.dbl(z.re); g.dbl(z.im); failed_sentinel = z.re == 0 && z.im == 0; }
      else if (op.fn == "Crystal_UnitCellVolume") { double v = L(Crystal_UnitCellVolume(cp, ep)); g.dbl(v); failed_sentinel = v == 0; }
      else if (op.fn == "Crystal_dSpacing") { double v = L(Crystal_dSpacing(cp, hh, kk, ll, ep)); g.dbl(v); failed_sentinel = v == 0; }
      else executed = false;
      delete oc;
      if (fetched) L(Crystal_Free(fetched));
      break;
    }
    case OK_ATOMFAC: {
      double f0 = -1, fp = -1, fpp = -1;
      // bit 3: the caller passes one variable for all requested outputs (the prototype has no `restrict`)
      double* pf0 = (op.i[1] & 1) ? &f0 : nullptr;
      double* pfp = (op.i[1] & 2) ? ((op.i[1] & 8) ? &f0 : &fp) : nullptr;
      double* pfpp = (op.i[1] & 4) ? ((op.i[1] & 8) ? &f0 : &fpp) : nullptr;
      int r = L(Atomic_Factors(op.i[0], op.d[0], op.d[1], op.d[2], pf0, pfp, pfpp, ep));
      g.i32(r); g.dbl(f0); g.dbl(fp); g.dbl(fpp);
      failed_sentinel = r == 0;
      break;
    }
    case OK_FREE: {
      auto it = handles.find(op.h[0]);
      if (it == handles.end() || it->second.shared) { executed = false; break; }
      Handle& h = it->second;
      switch (h.type) {
        case HT_COMPOUND: L(FreeCompoundData((struct compoundData*)h.p)); break;
        case HT_NIST: L(FreeCompoundDataNIST((struct compoundDataNIST*)h.p)); break;
        case HT_RN: L(FreeRadioNuclideData((struct radioNuclideData*)h.p)); break;
        case HT_STRLIST: { char** l = (char**)h.p; for (int j = 0; l[j]; j++) L(xrlFree(l[j])); L(xrlFree(l)); break; }
        case HT_STRING: L(xrlFree(h.p)); break;
        case HT_ERROR: L(xrl_error_free((xrl_error*)h.p)); break;
        case HT_CRYSTAL: L(Crystal_Free((Crystal_Struct*)h.p)); break;
        case HT_ARRAY: L(Crystal_ArrayFree((Crystal_Array*)h.p)); delete h.am; break;
        default: break;
      }
      g.i32(h.type);
      handles.erase(it);
      break;
    }
    case OK_INIT: L(XRayInit()); break;
    case OK_DEPRECATED: {
      _Pragma("clang diagnostic push") _Pragma("clang diagnostic ignored \"-Wdeprecated-declarations\"")
      if (op.fn == "SetHardExit") SetHardExit(op.i[0]);
      else if (op.fn == "SetExitStatus") SetExitStatus(op.i[0]);
      else if (op.fn == "GetExitStatus") g.i32(GetExitStatus());
      else if (op.fn == "SetErrorMessages") SetErrorMessages(op.i[0]);
      else if (op.fn == "GetErrorMessages") g.i32(GetErrorMessages());
      else executed = false;
      _Pragma("clang diagnostic pop")
      break;
    }
    default: executed = false; break;
  }
  arm_alloc_fault(0);
  bool fired = op_fault_fired();
  int nalloc = op_alloc_count();
  if (!executed) {
    logf("R #%d skipped", op.id);
    op_end();
    if (pos < MAXOPS) { SH->res[task][pos] = OpResult{0, 1, 0, 0, 0, 0}; SH->nresults[task] = pos + 1; }
    return;
  }
  bool failed = op.slot ? (e != nullptr) : failed_sentinel;
  if (e) {
    if (!fired) { g.i32(0xE0 + (int)e->code); g.str(e->message); }
    if (nh.type == HT_NONE && op.keep && !fired) {
      nh.type = HT_ERROR; nh.p = e;
    } else {
      L(xrl_error_free(e));
    }
    e = nullptr;
  }
  int oom = 0;
  if (fired) {
    if (failed || failed_sentinel) { oom = 1; SH->probes[PR_OOM_HANDLED]++; }
    else {
      oom = 2; SH->probes[PR_OOM_SWALLOWED]++;
      stopped = true;
      SH->stopped_op = op.id;
    }
  }
  if (nh.type != HT_NONE) {
    nh.born = seq;
    if (nh.type == HT_ERROR) { xrl_error* ee = (xrl_error*)nh.p; nh.err_code = (int)ee->code; nh.err_msg = ee->message ? ee->message : ""; }
    handles[op.id] = nh;
  }
  uint64_t digest = fired ? 0 : g.h;
  logf("R #%d d=%016llx f=%d oom=%d na=%d", op.id, (unsigned long long)digest, failed ? 1 : 0, oom, nalloc);
  if (pos < MAXOPS) {
    SH->res[task][pos] = OpResult{digest, 1, (uint8_t)failed, (uint8_t)fired, (uint8_t)oom, (uint32_t)nalloc};
    SH->nresults[task] = pos + 1;
  }
  SH->ops_done++;
  if (nalloc) SH->ops_alloc++;
  op_end();
  if (stopped) return;
  if (deep) {
    // the collection touched by the op (and, after mutations of copies, every collection) against the model
    op_begin(task, op.id, op.kind, fname);
    if (touched && touched_model) verify_array(*this, touched, *touched_model, fname, true);
    if (op.kind == OK_CR_MUT || op.kind == OK_FREE || seq % 16 == 0) {
      for (auto& kv : handles)
        if (kv.second.type == HT_ARRAY && kv.second.p != touched) verify_array(*this, (Crystal_Array*)kv.second.p, *kv.second.am, "(bystander collection)", seq % 16 == 0);
      if (touched != &Crystal_arr) verify_array(*this, &Crystal_arr, builtin_model, "(bystander built-in collection)", seq % 64 == 0);
    }
    op_end();
  }
  (void)touched_modified;
  // a caller that runs under its own uselocale() object: the library must neither consume, modify nor release it
  // (memory safety, every engine) and must leave the thread on it (C16 only)
  if (t_task->caller_loc) caller_locale_check(hooks.purity_monitors, fname);
  if (hooks.purity_monitors) purity_monitors(*this, op);
}

void Exec::release_all() {
  if (stopped) return;
  std::vector<int> ids;
  for (auto& kv : handles) ids.push_back(kv.first);
  for (int id : ids) {
    Op o;
    o.id = 1000000 + id;
    o.kind = OK_FREE;
    o.h[0] = id;
    run_op(o);
  }
}

// After full release: the live set must be exactly what the library itself still owns, i.e. what is
// reachable from the built-in crystal collection (names and atom arrays of inserted crystals, and a
// heap-allocated entry table if the library replaced the static one).
// scope: C04 is about every block; C14 ("releasing the array releases everything") about blocks allocated by
// crystal-collection ops; C16 and C17 do not speak about retained memory at all (a cache that keeps a block is
// C04's business), so their engines only log what is left.
void final_leak_check(std::vector<Exec*>& execs, int scope) {
  for (Exec* ex : execs)
    if (ex->stopped) { logf("LEAKCHECK skipped (run stopped at op %d)", SH->stopped_op); return; }
  std::vector<std::pair<void*, AllocInfo>> live;
  live_snapshot(live);
  if (live.empty()) { logf("LEAKCHECK clean"); return; }
  std::vector<const void*> owned;
  owned.push_back(Crystal_arr.crystal);
  for (int i = 0; i < Crystal_arr.n_crystal && i < CRYSTALARRAY_MAX; i++) {
    owned.push_back(Crystal_arr.crystal[i].name);
    owned.push_back(Crystal_arr.crystal[i].atom);
  }
  int nleak = 0;
  for (auto& kv : live) {
    if (std::find(owned.begin(), owned.end(), kv.first) != owned.end()) continue;
    const AllocInfo& ai = kv.second;
    if (scope == LEAKS_NONE) { logf("NOTE block o%u (%u bytes) still live at the end of the run", ai.id, ai.size); continue; }
    if (scope == LEAKS_CRYSTAL_OPS) {
      int k = ai.op_kind;
      bool crystal = k == OK_CA_INIT || k == OK_CA_ADD || k == OK_CA_READ || k == OK_CA_GET || k == OK_CA_LIST || k == OK_CA_FILL || k == OK_CR_COPY ||
                     k == OK_CR_MUT || k == OK_CR_MATH || k == OK_FREE;
      if (!crystal) { logf("NOTE block o%u from a non-crystal op still live", ai.id); continue; }
    }
    std::string s0 = site_of_pc(ai.site0), s1 = site_of_pc(ai.site1);
    std::string site = s0;
    if (s0 == "xrl_strdup" || s0 == "xrl_strndup" || s0 == "xrl_malloc" || s0 == "xrl_strdup_vprintf" || s0 == "xrl_error_new_valist" || s0 == "xrl_error_new_literal" || s0 == "xrl_set_error" || s0 == "xrl_set_error_literal") site = s1 + "/" + s0;
    SH->cur_task = ai.task;
    SH->cur_op = ai.op;
    violation("leak", site.c_str(), "block o%u (%u bytes, allocation #%d of op %d, task %d) still live after full release", ai.id, ai.size, ai.nth, ai.op, ai.task);
    if (++nleak >= 6) break;
  }
  logf("LEAKCHECK live=%zu leaked>=%d", live.size(), nleak);
}

}  // namespace xs
