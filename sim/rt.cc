// xrlsim runtime: log, symbols, table set, allocator / file / locale seams, instrumentation callbacks.
#include "rt.h"
#include <algorithm>
#include <errno.h>
#include <fenv.h>
#include <link.h>
#include <locale.h>
#include <langinfo.h>
#include <map>
#include <pthread.h>
#include <math.h>
#include <search.h>
#include <stdarg.h>
#include <stdlib.h>
#include <string.h>
#include <time.h>
#include <sys/time.h>
#include <unistd.h>
#include <unordered_map>
#include <unordered_set>

extern "C" const char* __asan_default_options();
extern "C" __attribute__((used, visibility("default"))) const char* __asan_default_options() {
  return "exitcode=77:detect_leaks=0:symbolize=0:abort_on_error=0:allocator_may_return_null=1:"
         "detect_stack_use_after_return=0:handle_abort=1:print_legend=0:print_summary=1:malloc_context_size=8:"
         "detect_odr_violation=0:redzone=128:max_redzone=2048:malloc_fill_byte=190:max_malloc_fill_size=1073741824:free_fill_byte=221:max_free_fill_size=4096";
}
extern "C" __attribute__((used, visibility("default"))) const char* __ubsan_default_options() {
  return "print_stacktrace=1:symbolize=0:halt_on_error=1:exitcode=77";
}

namespace xs {

const char* const kFaultNames[FK_N] = {"alloc_fail", "open_errno", "read_eio", "truncated_file", "short_reads",
                                       "unseekable", "corrupt_content", "preemption", "alloc_too_large"};
const char* const kProbeNames[PR_N] = {
    "array_growth_path_taken", "insertion_at_exact_capacity", "builtin_refusal_at_512", "readfile_failure_after_first_crystal",
    "oom_handled_failure_path", "oom_swallowed", "fractional_subscript_parsed_in_decimal_comma_locale", "error_object_alive_10_ops",
    "preemption_at_visible_operation", "duplicate_add_rejected", "readfile_ok_multi_crystal", "copy_mutated_before_release",
    "readfile_ok_under_short_reads", "nested_formula_parsed", "cp_nist_fallback_taken", "error_propagated",
    "shared_crystal_used_by_2_tasks", "readfile_hit_eio", "readfile_truncated_rejected", "array_zero_capacity_used",
    "formula_parsed_under_callers_thread_locale", "formula_rejected_under_callers_thread_locale", "readfile_under_callers_thread_locale",
    "file_layout_variant_accepted", "file_layout_variant_rejected"};

Shared* SH = nullptr;
uint8_t* g_cov = nullptr;
uint32_t g_cov_n = 0;
uint8_t* g_pairs = nullptr;
thread_local TaskCtx* t_task = nullptr;
bool g_threads_mode = false;
bool g_in_op = false;
int g_locale_cfg = LOC_C;
std::string g_locale_all;

// ------------------------------------------------------------------ log
static inline void hash_bytes(const char* p, size_t n) {
  uint64_t h = SH->log_hash;
  for (size_t i = 0; i < n; i++) { h ^= (unsigned char)p[i]; h *= 1099511628211ULL; }
  SH->log_hash = h;
}
void logf(const char* fmt, ...) {
  char buf[1024];
  va_list ap;
  va_start(ap, fmt);
  int n = vsnprintf(buf, sizeof buf - 1, fmt, ap);
  va_end(ap);
  if (n < 0) return;
  if (n > (int)sizeof buf - 2) n = sizeof buf - 2;
  buf[n++] = '\n';
  hash_bytes(buf, n);
  if (SH->log_len + n < LOGCAP) {
    memcpy(SH->log + SH->log_len, buf, n);
    SH->log_len += n;
  } else {
    SH->log_dropped += n;
  }
}
void violation(const char* cls, const char* site, const char* fmt, ...) {
  char buf[400];
  va_list ap;
  va_start(ap, fmt);
  vsnprintf(buf, sizeof buf, fmt, ap);
  va_end(ap);
  logf("VIOL %s@%s %s", cls, site, buf);
  for (int i = 0; i < SH->nviol; i++)
    if (!strcmp(SH->viol[i].cls, cls) && !strcmp(SH->viol[i].site, site)) return;  // dedupe per run
  if (SH->nviol >= MAXVIOL) return;
  Viol& v = SH->viol[SH->nviol];
  snprintf(v.cls, sizeof v.cls, "%s", cls);
  snprintf(v.site, sizeof v.site, "%s", site);
  snprintf(v.detail, sizeof v.detail, "%s", buf);
  v.task = SH->cur_task;
  v.op = SH->cur_op;
  __atomic_store_n(&SH->nviol, SH->nviol + 1, __ATOMIC_SEQ_CST);
}
void child_exit(int code) {
  fflush(stdout);
  fflush(stderr);
  _exit(code);
}

// ------------------------------------------------------------------ symbols
static std::vector<Sym> g_syms;  // sorted by addr (module offsets)
static std::unordered_set<std::string> g_libfuncs, g_atomic_funcs;
static uintptr_t g_base = 0, g_img_lo = 0, g_img_hi = 0;

static int phdr_cb(struct dl_phdr_info* info, size_t, void*) {
  g_base = info->dlpi_addr;
  uintptr_t lo = ~(uintptr_t)0, hi = 0;
  for (int i = 0; i < info->dlpi_phnum; i++)
    if (info->dlpi_phdr[i].p_type == PT_LOAD) {
      uintptr_t a = info->dlpi_addr + info->dlpi_phdr[i].p_vaddr;
      lo = std::min(lo, a);
      hi = std::max(hi, a + info->dlpi_phdr[i].p_memsz);
    }
  g_img_lo = lo;
  g_img_hi = hi;
  return 1;  // first entry = main executable
}
uintptr_t exe_base() { return g_base; }

static std::vector<std::pair<uintptr_t, uintptr_t>> g_tabranges;  // module offsets [lo,hi)
static std::vector<std::string> g_tabnames;

void symbols_load(const char* exe_sym_path, const char* bdir) {
  dl_iterate_phdr(phdr_cb, nullptr);
  FILE* f = fopen(exe_sym_path, "r");
  if (!f) { fprintf(stderr, "xrlsim: cannot read %s\n", exe_sym_path); exit(2); }
  char line[2048];
  while (fgets(line, sizeof line, f)) {
    unsigned long a = 0, sz = 0;
    char ty = 0, name[1024];
    if (sscanf(line, "%lx %lx %c %1000s", &a, &sz, &ty, name) == 4) {
    } else if (sscanf(line, "%lx %c %1000s", &a, &ty, name) == 3) {
      sz = 0;
    } else
      continue;
    g_syms.push_back(Sym{(uintptr_t)a, (size_t)sz, ty, name});
  }
  fclose(f);
  std::stable_sort(g_syms.begin(), g_syms.end(), [](const Sym& x, const Sym& y) { return x.addr < y.addr; });
  std::string p = std::string(bdir) + "/libfuncs.sym";
  f = fopen(p.c_str(), "r");
  std::unordered_set<std::string> libdata;
  if (f) {
    while (fgets(line, sizeof line, f)) {
      unsigned long a, sz;
      char ty, name[1024];
      if (sscanf(line, "%lx %lx %c %1000s", &a, &sz, &ty, name) == 4 || (sz = 0, sscanf(line, "%lx %c %1000s", &a, &ty, name) == 3)) {
        if (ty == 'T' || ty == 't') g_libfuncs.insert(name);
      }
    }
    fclose(f);
  }
  {
    FILE* g = fopen((std::string(bdir) + "/atomic_funcs.txt").c_str(), "r");
    if (g) {
      while (fgets(line, sizeof line, g)) {
        char* e = strchr(line, '\n');
        if (e) *e = 0;
        if (line[0]) g_atomic_funcs.insert(line);
      }
      fclose(g);
    }
  }
  // table set: every data symbol of the generated table file, the catalogue arrays named by the
  // internal headers, the name tables of xrayvars.c; minus the crystal collection.
  std::unordered_set<std::string> tn;
  auto add_from_nm = [&](const std::string& path, bool all) {
    FILE* g = fopen(path.c_str(), "r");
    if (!g) return;
    while (fgets(line, sizeof line, g)) {
      unsigned long a, sz;
      char ty, name[1024];
      if (sscanf(line, "%lx %lx %c %1000s", &a, &sz, &ty, name) != 4) continue;
      if (!strchr("dDbB", ty)) continue;
      if (!strcmp(name, "Crystal_arr") || !strcmp(name, "__Crystal_arr")) continue;
      if (strstr(name, "asan") || strstr(name, "sancov") || name[0] == '.') continue;
      if (all) tn.insert(name);
    }
    fclose(g);
  };
  add_from_nm(std::string(bdir) + "/tables.sym", true);
  add_from_nm(std::string(bdir) + "/xrayvars.sym", true);
  {
    FILE* g = fopen((std::string(bdir) + "/catalogue.names").c_str(), "r");
    if (g) {
      while (fgets(line, sizeof line, g)) {
        char* e = strchr(line, '\n');
        if (e) *e = 0;
        if (line[0]) tn.insert(line);
      }
      fclose(g);
    }
  }
  for (const Sym& s : g_syms)
    if (strchr("dDbB", s.type) && s.size > 0 && tn.count(s.name)) {
      g_tabranges.push_back({s.addr, s.addr + s.size});
    }
  std::sort(g_tabranges.begin(), g_tabranges.end());
}

const Sym* sym_lookup_off(uintptr_t off) {
  size_t lo = 0, hi = g_syms.size();
  while (lo < hi) {
    size_t mid = (lo + hi) / 2;
    if (g_syms[mid].addr <= off) lo = mid + 1; else hi = mid;
  }
  if (lo == 0) return nullptr;
  // prefer a sized symbol that contains off; walk back over zero-size aliases
  for (size_t i = lo; i-- > 0 && lo - i < 8;) {
    const Sym& s = g_syms[i];
    if (s.size && off >= s.addr && off < s.addr + s.size) return &s;
  }
  return &g_syms[lo - 1];
}
const Sym* sym_lookup(uintptr_t pc) { return (pc >= g_base) ? sym_lookup_off(pc - g_base) : nullptr; }
bool sym_is_libfunc(const std::string& n) { return g_libfuncs.count(n) != 0; }
bool sym_is_atomic_func(const std::string& n) { return g_atomic_funcs.count(n) != 0; }
std::string site_of_pc(uintptr_t pc) {
  if (pc < g_img_lo || pc >= g_img_hi) return "?";
  const Sym* s = sym_lookup(pc);
  if (!s) return "?";
  return s->name;
}
std::string data_site(uintptr_t a) {
  if (a < g_img_lo || a >= g_img_hi) return "heap-or-other";
  const Sym* s = sym_lookup(a);
  if (!s) return "static:?";
  char b[256];
  snprintf(b, sizeof b, "%s+%lu", s->name.c_str(), (unsigned long)(a - g_base - s->addr));
  return b;
}
bool in_lib_static(uintptr_t a) { return a >= g_img_lo && a < g_img_hi; }

void tables_init() {}
bool in_table_set(uintptr_t a) {
  if (a < g_img_lo || a >= g_img_hi) return false;
  uintptr_t off = a - g_base;
  size_t lo = 0, hi = g_tabranges.size();
  while (lo < hi) {
    size_t mid = (lo + hi) / 2;
    if (g_tabranges[mid].first <= off) lo = mid + 1; else hi = mid;
  }
  return lo > 0 && off < g_tabranges[lo - 1].second;
}
__attribute__((no_sanitize("address"))) uint64_t tables_hash() {
  uint64_t h = 0x9e3779b97f4a7c15ULL;
  for (auto& r : g_tabranges) {
    const uint64_t* p = (const uint64_t*)(g_base + r.first);
    size_t n = (r.second - r.first) / 8;
    for (size_t i = 0; i < n; i++) { h = (h ^ p[i]) * 0x100000001b3ULL; h ^= h >> 29; }
    const unsigned char* q = (const unsigned char*)(p + n);
    for (size_t i = 0; i < (r.second - r.first) % 8; i++) h = (h ^ q[i]) * 0x100000001b3ULL;
  }
  return h ^ g_tabranges.size();
}

__attribute__((no_sanitize("address"))) static uint64_t range_hash(uintptr_t lo, uintptr_t hi) {
  uint64_t h = 0xcbf29ce484222325ULL;
  const unsigned char* p = (const unsigned char*)(g_base + lo);
  for (size_t i = 0; i < hi - lo; i++) { h ^= p[i]; h *= 1099511628211ULL; }
  return h;
}
std::vector<std::pair<uint64_t, std::string>> tables_range_hashes() {
  std::vector<std::pair<uint64_t, std::string>> v;
  for (auto& r : g_tabranges) {
    const Sym* s = sym_lookup_off(r.first);
    v.push_back({range_hash(r.first, r.second), s ? s->name : "?"});
  }
  return v;
}
static std::vector<std::pair<uint64_t, std::string>> g_tab_pristine;
static uint64_t g_tab_pristine_all = 0;
bool g_table_store_seen = false;
char g_table_store_site[96], g_table_store_where[128];
std::string tables_first_diff(const std::vector<std::pair<uint64_t, std::string>>& ref);
void tables_snapshot() { g_tab_pristine = tables_range_hashes(); g_tab_pristine_all = tables_hash(); }
bool tables_changed(std::string* which) {
  if (tables_hash() == g_tab_pristine_all) return false;
  if (which) *which = tables_first_diff(g_tab_pristine);
  return true;
}
std::string tables_first_diff(const std::vector<std::pair<uint64_t, std::string>>& ref) {
  for (size_t i = 0; i < g_tabranges.size() && i < ref.size(); i++)
    if (range_hash(g_tabranges[i].first, g_tabranges[i].second) != ref[i].first) return ref[i].second;
  return "?";
}

// ------------------------------------------------------------------ run / op context
static std::map<uintptr_t, AllocInfo> g_live;  // ordered: interval lookup for ownership
static uint32_t g_next_obj = 0;
static TaskCtx g_main_ctx;

void set_task_stack(TaskCtx* t) {
  pthread_attr_t at;
  void* addr = nullptr;
  size_t sz = 0;
  if (pthread_getattr_np(pthread_self(), &at) == 0) {
    pthread_attr_getstack(&at, &addr, &sz);
    pthread_attr_destroy(&at);
  }
  t->stack_lo = (uintptr_t)addr;
  t->stack_hi = (uintptr_t)addr + sz;
}
static uintptr_t g_main_stack_lo = 0, g_main_stack_hi = 0;
void cache_main_stack() {   // template: pthread_getattr_np parses /proc/self/maps for the main thread (slow under ASan)
  TaskCtx t;
  set_task_stack(&t);
  g_main_stack_lo = t.stack_lo;
  g_main_stack_hi = t.stack_hi;
}
void run_reset_child() {
  g_live.clear();
  g_next_obj = 0;
  g_main_ctx = TaskCtx();
  g_main_ctx.id = 0; g_main_ctx.events = 0;
  if (g_main_stack_hi) { g_main_ctx.stack_lo = g_main_stack_lo; g_main_ctx.stack_hi = g_main_stack_hi; }
  else set_task_stack(&g_main_ctx);
  t_task = &g_main_ctx;
  vfs_clear();
}
void publish_ctx(TaskCtx* t) {
  SH->cur_task = t->id;
  SH->cur_op = t->cur_op;
  SH->cur_op_kind = t->cur_kind;
  SH->cur_fault_fired = t->fault_fired ? 1 : 0;
  memcpy(SH->cur_fn, t->cur_fn, sizeof SH->cur_fn);
}
void op_begin(int task, int opid, int kind, const char* fn) {
  TaskCtx* t = t_task;
  t->id = task;
  t->cur_op = opid;
  t->cur_kind = kind;
  snprintf(t->cur_fn, sizeof t->cur_fn, "%s", fn ? fn : "");
  t->op_allocs = 0;
  t->fail_at = 0;
  t->fault_fired = false;
  t->io_steps = 0;
  publish_ctx(t);
  g_in_op = true;
}
void op_end() { g_in_op = false; t_task->fail_at = 0; t_task->fault_fired = false; SH->cur_fault_fired = 0; }
void arm_alloc_fault(int k) { t_task->fail_at = k; }
int op_alloc_count() { return t_task->op_allocs; }
bool op_fault_fired() { return t_task->fault_fired; }
size_t live_count() { return g_live.size(); }
void live_snapshot(std::vector<std::pair<void*, AllocInfo>>& out) {
  out.clear();
  for (auto& kv : g_live) out.push_back({(void*)kv.first, kv.second});
  std::sort(out.begin(), out.end(), [](auto& a, auto& b) { return a.second.id < b.second.id; });
}
const AllocInfo* live_find(const void* p) {
  auto it = g_live.upper_bound((uintptr_t)p);
  if (it == g_live.begin()) return nullptr;
  --it;
  if ((uintptr_t)p < it->first + std::max<uint32_t>(it->second.size, 1)) return &it->second;
  return nullptr;
}

static const size_t kHugeAlloc = 64u << 20;
// returns true if this allocation must fail
static bool alloc_gate(size_t size, const char* what) {
  SH->seam_calls++;
  sched_visible("alloc");
  TaskCtx* t = t_task;
  ++t->op_allocs;
  if (t->fail_at && t->op_allocs == t->fail_at) {
    t->fault_fired = true;
    SH->cur_fault_fired = 1;
    SH->faults[FK_ALLOC]++;
    logf("A #%d %s %zu FAIL", t->op_allocs, what, size);
    errno = ENOMEM;
    return true;
  }
  if (size > kHugeAlloc) {
    // the simulated machine has no memory for requests of this size (the library never needs more than a few MB):
    // they fail the way malloc fails without overcommit, under the same policy as an injected failure (DESIGN 4)
    t->fault_fired = true;
    SH->cur_fault_fired = 1;
    SH->faults[FK_ALLOC_HUGE]++;
    logf("A #%d %s %zu FAIL(huge)", t->op_allocs, what, size);
    errno = ENOMEM;
    return true;
  }
  return false;
}
static void alloc_record(void* p, size_t size, const char* what, uintptr_t s0, uintptr_t s1) {
  if (!p) { logf("A #%d %s %zu -> NULL(real)", t_task->op_allocs, what, size); return; }
  AllocInfo ai;
  ai.id = g_next_obj++;
  ai.size = (uint32_t)size;
  ai.task = t_task->id;
  ai.op = t_task->cur_op;
  ai.nth = t_task->op_allocs;
  ai.site0 = s0;
  ai.site1 = s1;
  ai.op_kind = t_task->cur_kind;
  g_live[(uintptr_t)p] = ai;
  race_forget_range((uintptr_t)p, size);
  SH->allocs++;
  logf("A #%d %s %zu -> o%u", t_task->op_allocs, what, size, ai.id);
}
static void alloc_forget(void* p, const char* what) {
  if (!p) return;
  auto it = g_live.find((uintptr_t)p);
  if (it == g_live.end()) {
    logf("F foreign (%s)", what);
    return;
  }
  logf("F o%u", it->second.id);
  if (g_threads_mode) {
    // releasing a block is a write to all of it: another task still using it is a race
    race_touch((uintptr_t)p, it->second.size, true, (uintptr_t)__builtin_return_address(0));
    race_forget_range((uintptr_t)p, it->second.size);
  }
  g_live.erase(it);
}

// ------------------------------------------------------------------ virtual files
struct Cookie { VFile f; long pos; long calls; bool eio_reported; bool short_reported; TaskCtx* owner; };
static std::vector<VFile> g_vfiles;

void vfs_clear() { g_vfiles.clear(); }
void vfs_add(const VFile& f) {
  for (auto& e : g_vfiles)
    if (e.name == f.name) { e = f; return; }
  g_vfiles.push_back(f);
}
int vfs_open_streams() { return t_task->open_streams; }
void vfs_begin_op() { t_task->io_steps = 0; }

static ssize_t ck_read(void* c, char* buf, size_t size) {
  Cookie* k = (Cookie*)c;
  if (++k->owner->io_steps > k->owner->io_budget) {
    violation("no-progress", k->owner->cur_fn, "I/O step budget %ld exceeded reading '%s' (pos %ld)", k->owner->io_budget, k->f.name.c_str(), k->pos);
    child_exit(0);
  }
  long len = (long)k->f.content.size();
  if (k->f.trunc_at >= 0 && k->f.trunc_at < len) len = k->f.trunc_at;
  if (k->f.eio_at >= 0 && k->pos >= k->f.eio_at) {
    if (!k->eio_reported) { SH->faults[FK_EIO]++; k->eio_reported = true; }
    logf("READ EIO @%ld", k->pos);
    errno = EIO;
    return -1;
  }
  long n = len - k->pos;
  if (n < 0) n = 0;
  if ((long)size < n) n = (long)size;
  if (k->f.eio_at >= 0 && k->pos + n > k->f.eio_at) n = k->f.eio_at - k->pos;
  if (k->f.chunk > 0 && n > k->f.chunk) {
    n = k->f.chunk;
    if (!k->short_reported) { SH->faults[FK_SHORTREAD]++; k->short_reported = true; }
  }
  if (k->f.trunc_at >= 0 && n == 0 && (long)k->f.content.size() > len && k->calls == 0) {}
  memcpy(buf, k->f.content.data() + k->pos, n);
  k->pos += n;
  k->calls++;
  logf("READ %ld/%zu", n, size);
  return n;
}
static int ck_seek(void* c, off64_t* off, int whence) {
  Cookie* k = (Cookie*)c;
  if (k->f.unseekable) {
    SH->faults[FK_UNSEEKABLE]++;
    logf("SEEK ESPIPE");
    errno = ESPIPE;
    return -1;
  }
  long len = (long)k->f.content.size();
  if (k->f.trunc_at >= 0 && k->f.trunc_at < len) len = k->f.trunc_at;
  long np;
  switch (whence) {
    case SEEK_SET: np = *off; break;
    case SEEK_CUR: np = k->pos + *off; break;
    case SEEK_END: np = len + *off; break;
    default: errno = EINVAL; return -1;
  }
  if (np < 0) { errno = EINVAL; return -1; }
  k->pos = np;
  *off = np;
  logf("SEEK %ld", np);
  return 0;
}
static int ck_close(void* c) {
  Cookie* k = (Cookie*)c;
  k->owner->open_streams--;
  logf("CLOSE %s", k->f.name.c_str());
  delete k;
  return 0;
}

}  // namespace xs

using namespace xs;

// ==================================================================== seams (C linkage)
#define RA0 ((uintptr_t)__builtin_return_address(0))
static inline uintptr_t ra1() {
  // return address of the caller's caller (library frames keep frame pointers)
  void** fp = (void**)__builtin_frame_address(0);
  if (!fp) return 0;
  void** up = (void**)fp[0];
  if (!up || (uintptr_t)up < (uintptr_t)fp || (uintptr_t)up - (uintptr_t)fp > (1 << 20)) return 0;
  return (uintptr_t)up[1];
}

// a locale-dependent libc call reads the process-wide locale only while the thread has not installed its own
static inline void locale_read(const char* what, uintptr_t pc) {
  if (uselocale((locale_t)0) == LC_GLOBAL_LOCALE) virt_access(VL_LOCALE_NUMERIC, false, what, pc);
}

extern "C" {

// ---- allocator seam.  "Reuse mode" (a per-run knob of the plan): a freed block goes to a LIFO pool of its exact
// size and is handed out again by the next allocation of that size, as a production allocator does.  ASan alone
// never reuses an address within a short run (quarantine), which hides every bug that recognises an object by
// its address (a cache validated by pointer comparison, ABA).  Pooled blocks are poisoned while free, so a
// use-after-free is still reported (as use-after-poison), and a second free of a pooled block is reported here.
extern "C" void __asan_poison_memory_region(void const volatile* addr, size_t size);
extern "C" void __asan_unpoison_memory_region(void const volatile* addr, size_t size);
}  // extern "C" (re-opened below)
namespace xs {
bool g_reuse_mode = false;
uint64_t g_sim_entropy = 0x9e3779b97f4a7c15ull;
int g_fill_byte = 0;   // plan field `fill`: contents of fresh (uninitialised) heap and stack memory; 0 = ASan's 0xbe / leftovers
static std::unordered_map<size_t, std::vector<void*>> g_pool;
static std::unordered_set<void*> g_pooled;
void reuse_reset(bool on) { g_reuse_mode = on; g_pool.clear(); g_pooled.clear(); }
static void* pool_alloc(size_t n, bool zero) {
  if (g_reuse_mode && n > 0 && n <= 8192) {
    auto it = g_pool.find(n);
    if (it != g_pool.end() && !it->second.empty()) {
      void* p = it->second.back();
      it->second.pop_back();
      g_pooled.erase(p);
      __asan_unpoison_memory_region(p, n);
      memset(p, zero ? 0 : g_fill_byte ? g_fill_byte : 0xbe, n);
      return p;
    }
  }
  void* p = zero ? calloc(1, n) : malloc(n);
  if (p && !zero && g_fill_byte) memset(p, g_fill_byte, n);
  return p;
}
static void pool_free(void* p, size_t n, bool known) {
  if (!p) return;
  if (g_reuse_mode && !known && g_pooled.count(p)) {
    violation("asan:double-free", site_of_pc((uintptr_t)__builtin_return_address(0)).c_str(), "block released twice (second free of a pooled block) during %s", t_task->cur_fn);
    child_exit(0);
  }
  if (g_reuse_mode && known && n > 0 && n <= 8192) {
    memset(p, 0xdd, n);
    __asan_poison_memory_region(p, n);
    g_pool[n].push_back(p);
    g_pooled.insert(p);
    return;
  }
  free(p);
}
}  // namespace xs
extern "C" {

void* xs_malloc(size_t n) {
  if (alloc_gate(n, "malloc")) return nullptr;
  void* p = pool_alloc(n, false);
  alloc_record(p, n, "malloc", RA0, ra1());
  return p;
}
void* xs_calloc(size_t a, size_t b) {
  if (alloc_gate(b && a > (size_t)-1 / b ? (size_t)-1 : a * b, "calloc")) return nullptr;
  void* p = (a && b && a * b / b != a) ? nullptr : pool_alloc(a * b, true);
  alloc_record(p, a * b, "calloc", RA0, ra1());
  return p;
}
void* xs_realloc(void* old, size_t n) {
  if (alloc_gate(n, "realloc")) return nullptr;  // failed realloc leaves the old block intact
  uintptr_t s0 = RA0, s1 = ra1();
  if (g_reuse_mode && old) {
    auto it = g_live.find((uintptr_t)old);
    if (it != g_live.end()) {
      size_t osz = it->second.size;
      if (n == 0) { alloc_forget(old, "realloc"); pool_free(old, osz, true); return nullptr; }
      void* p = pool_alloc(n, false);
      if (p) memcpy(p, old, osz < n ? osz : n);
      alloc_forget(old, "realloc");
      pool_free(old, osz, true);
      alloc_record(p, n, "realloc", s0, s1);
      return p;
    }
  }
  size_t osz_fill = 0;
  if (old && g_fill_byte) { auto it = g_live.find((uintptr_t)old); osz_fill = it != g_live.end() ? it->second.size : n; }
  if (old) alloc_forget(old, "realloc");
  void* p = realloc(old, n);
  if (n == 0 && !p) return p;
  if (p && g_fill_byte && osz_fill < n) memset((char*)p + osz_fill, g_fill_byte, n - osz_fill);   // the grown part is uninitialised
  alloc_record(p, n, "realloc", s0, s1);
  return p;
}
// the rest of the allocator family: same gate, same accounting (no pool: alignment / libc-internal growth)
void* xs_reallocarray(void* old, size_t a, size_t b) {
  if (alloc_gate(b && a > (size_t)-1 / b ? (size_t)-1 : a * b, "reallocarray")) return nullptr;
  uintptr_t s0 = RA0, s1 = ra1();
  size_t n = a * b;
  if (g_reuse_mode && old && g_live.count((uintptr_t)old)) {
    size_t osz = g_live[(uintptr_t)old].size;
    if (n == 0) { alloc_forget(old, "reallocarray"); pool_free(old, osz, true); return nullptr; }
    void* p = pool_alloc(n, false);
    if (p) memcpy(p, old, osz < n ? osz : n);
    alloc_forget(old, "reallocarray");
    pool_free(old, osz, true);
    alloc_record(p, n, "reallocarray", s0, s1);
    return p;
  }
  size_t osz_fill = 0;
  if (old && g_fill_byte) { auto it = g_live.find((uintptr_t)old); osz_fill = it != g_live.end() ? it->second.size : n; }
  if (old) alloc_forget(old, "reallocarray");
  void* p = realloc(old, n);
  if (n == 0 && !p) return p;
  if (p && g_fill_byte && osz_fill < n) memset((char*)p + osz_fill, g_fill_byte, n - osz_fill);
  alloc_record(p, n, "reallocarray", s0, s1);
  return p;
}
void* xs_aligned_alloc(size_t al, size_t n) {
  if (alloc_gate(n, "aligned_alloc")) return nullptr;
  void* p = aligned_alloc(al, n);
  if (p && g_fill_byte) memset(p, g_fill_byte, n);
  alloc_record(p, n, "aligned_alloc", RA0, ra1());
  return p;
}
void* xs_memalign(size_t al, size_t n) {
  if (alloc_gate(n, "memalign")) return nullptr;
  void* p = aligned_alloc(al, (n + al - 1) / al * al);
  if (p && g_fill_byte) memset(p, g_fill_byte, n);
  alloc_record(p, n, "memalign", RA0, ra1());
  return p;
}
void* xs_valloc(size_t n) {
  if (alloc_gate(n, "valloc")) return nullptr;
  void* p = nullptr;
  if (posix_memalign(&p, 4096, n)) p = nullptr;
  if (p && g_fill_byte) memset(p, g_fill_byte, n);
  alloc_record(p, n, "valloc", RA0, ra1());
  return p;
}
int xs_posix_memalign(void** out, size_t al, size_t n) {
  if (alloc_gate(n, "posix_memalign")) return ENOMEM;
  int r = posix_memalign(out, al, n);
  if (r == 0 && g_fill_byte) memset(*out, g_fill_byte, n);
  if (r == 0) alloc_record(*out, n, "posix_memalign", RA0, ra1());
  return r;
}
ssize_t xs_getdelim(char** line, size_t* cap, int delim, FILE* fp) {
  SH->seam_calls++;
  char* old = line ? *line : nullptr;
  bool pooled = old && g_reuse_mode && g_live.count((uintptr_t)old);
  if (pooled) {
    // libc must not realloc a pool block: hand it an ordinary block with the same contents first
    size_t osz = g_live[(uintptr_t)old].size;
    char* q = (char*)malloc(osz ? osz : 1);
    if (q) { memcpy(q, old, osz); alloc_forget(old, "getline(buffer)"); pool_free(old, osz, true); alloc_record(q, osz, "getline(buffer)", RA0, ra1()); *line = old = q; if (cap && *cap > osz) *cap = osz; }
  }
  if ((!old || (cap && *cap == 0)) && alloc_gate(120, "getline")) { errno = ENOMEM; return -1; }
  ssize_t r = getdelim(line, cap, delim, fp);
  if (line && *line != old) {
    if (old) alloc_forget(old, "getline(grow)");
    if (*line) alloc_record(*line, cap ? *cap : 0, "getline", RA0, ra1());
  }
  return r;
}
ssize_t xs_getline(char** line, size_t* cap, FILE* fp) { return xs_getdelim(line, cap, '\n', fp); }
void xs_free(void* p) {
  SH->seam_calls++;
  if (p) sched_visible("free");
  size_t sz = 0;
  bool known = false;
  if (p) {
    auto it = g_live.find((uintptr_t)p);
    if (it != g_live.end()) { sz = it->second.size; known = true; }
  }
  alloc_forget(p, "free");
  pool_free(p, sz, known);
}
char* xs_strdup(const char* s) {
  size_t n = strlen(s);
  on_mem_access((uintptr_t)s, n + 1, false, RA0);
  if (alloc_gate(n + 1, "strdup")) return nullptr;
  char* p;
  if (g_reuse_mode) { p = (char*)pool_alloc(n + 1, false); if (p) memcpy(p, s, n + 1); }
  else p = strdup(s);
  alloc_record(p, n + 1, "strdup", RA0, ra1());
  return p;
}
char* xs_strndup(const char* s, size_t len) {
  size_t n = strnlen(s, len);
  on_mem_access((uintptr_t)s, n, false, RA0);
  if (alloc_gate(n + 1, "strndup")) return nullptr;
  char* p;
  if (g_reuse_mode) { p = (char*)pool_alloc(n + 1, false); if (p) { memcpy(p, s, n); p[n] = 0; } }
  else p = strndup(s, len);
  alloc_record(p, n + 1, "strndup", RA0, ra1());
  return p;
}
static int vasprintf_pooled(char** out, const char* fmt, va_list ap) {
  int r = vasprintf(out, fmt, ap);
  if (r >= 0 && g_reuse_mode) {
    char* q = (char*)pool_alloc((size_t)r + 1, false);
    if (q) { memcpy(q, *out, (size_t)r + 1); free(*out); *out = q; }
  }
  return r;
}
int xs_vasprintf(char** out, const char* fmt, va_list ap) {
  locale_read("vasprintf", RA0);
  if (alloc_gate(0, "vasprintf")) return -1;
  int r = vasprintf_pooled(out, fmt, ap);
  if (r >= 0) alloc_record(*out, (size_t)r + 1, "vasprintf", RA0, ra1());
  return r;
}
int xs_asprintf(char** out, const char* fmt, ...) {
  locale_read("asprintf", RA0);
  if (alloc_gate(0, "asprintf")) return -1;
  va_list ap;
  va_start(ap, fmt);
  int r = vasprintf_pooled(out, fmt, ap);
  va_end(ap);
  if (r >= 0) alloc_record(*out, (size_t)r + 1, "asprintf", RA0, ra1());
  return r;
}

// ---- files
FILE* xs_fopen(const char* name, const char* mode) {
  SH->seam_calls++;
  sched_visible("fopen");
  for (auto& f : g_vfiles)
    if (f.name == name) {
      if (f.open_errno) {
        SH->faults[FK_OPEN_ERRNO]++;
        logf("FOPEN %s -> errno %d", name, f.open_errno);
        errno = f.open_errno;
        return nullptr;
      }
      Cookie* k = new Cookie{f, 0, 0, false, false, t_task};
      cookie_io_functions_t io = {ck_read, nullptr, ck_seek, ck_close};
      FILE* fp = fopencookie(k, "r", io);
      if (!fp) { delete k; return nullptr; }
      t_task->open_streams++;
      long len = (long)f.content.size();
      t_task->io_budget = 10 * len + 1000;
      if (f.trunc_at >= 0 && f.trunc_at < len) SH->faults[FK_TRUNC]++;
      logf("FOPEN %s -> ok", name);
      return fp;
    }
  logf("FOPEN %s -> ENOENT", name);
  errno = ENOENT;
  return nullptr;
}
FILE* xs_fdopen(int, const char*) { logf("FDOPEN refused"); errno = EBADF; return nullptr; }
FILE* xs_freopen(const char*, const char*, FILE*) { logf("FREOPEN refused"); errno = EACCES; return nullptr; }

// ---- locale
static int vl_of_cat(int cat) { return (cat == LC_NUMERIC || cat == LC_ALL) ? VL_LOCALE_NUMERIC : VL_LOCALE_OTHER; }
char* xs_setlocale(int cat, const char* name) {
  SH->seam_calls++;
  sched_visible("setlocale");
  if (!name) {
    virt_access(vl_of_cat(cat), false, "setlocale(query)", RA0);
    return setlocale(cat, nullptr);
  }
  const char* b = setlocale(cat, nullptr);
  std::string before = b ? b : "";
  char* r = setlocale(cat, name);
  const char* a = setlocale(cat, nullptr);
  std::string after = a ? a : "";
  bool changed = before != after;
  logf("SETLOCALE %d \"%s\" -> %s%s", cat, name, r ? r : "NULL", changed ? " changed" : "");
  virt_access(vl_of_cat(cat), changed, "setlocale", RA0);
  return r;
}
// POSIX per-thread locales: objects are tracked like allocations (a forgotten freelocale is a leak,
// newlocale/duplocale can fail with ENOMEM); uselocale only touches the calling thread
static bool lib_owns(const void* p) { return g_live.find((uintptr_t)p) != g_live.end(); }
static void locale_foreign(const char* call, locale_t l) {
  // every locale object the library may consume or release is one it made itself with newlocale/duplocale
  if (l == (locale_t)0 || l == LC_GLOBAL_LOCALE || lib_owns((void*)l)) return;
  violation("locale-ownership", t_task->cur_fn[0] ? t_task->cur_fn : SH->cur_fn, "%s applied to a locale object the library did not create%s", call,
            (void*)l == t_task->caller_loc ? " (the one the calling thread installed with uselocale)" : "");
}
locale_t xs_newlocale(int mask, const char* name, locale_t base) {
  SH->seam_calls++;
  if (alloc_gate(0, "newlocale")) return (locale_t)0;   // on failure the base is left untouched
  uintptr_t s0 = RA0, s1 = ra1();
  locale_foreign("newlocale(.., base), which takes ownership of base,", base);
  if (base) alloc_forget((void*)base, "newlocale(base)");
  locale_t r = newlocale(mask, name, base);
  if (r) alloc_record((void*)r, 1, "newlocale", s0, s1);
  return r;
}
locale_t xs_duplocale(locale_t l) {
  SH->seam_calls++;
  if (l == LC_GLOBAL_LOCALE) { virt_access(VL_LOCALE_NUMERIC, false, "duplocale(global)", RA0); virt_access(VL_LOCALE_OTHER, false, "duplocale(global)", RA0); }
  if (alloc_gate(0, "duplocale")) return (locale_t)0;
  locale_t r = duplocale(l);
  if (r) alloc_record((void*)r, 1, "duplocale", RA0, ra1());
  return r;
}
void xs_freelocale(locale_t l) {
  SH->seam_calls++;
  locale_foreign("freelocale", l);
  alloc_forget((void*)l, "freelocale");
  freelocale(l);
}
locale_t xs_uselocale(locale_t l) {
  SH->seam_calls++;
  locale_t old = uselocale(l);
  if (l) logf("USELOCALE %s", l == LC_GLOBAL_LOCALE ? "global" : "thread-local");
  return old;
}
double xs_strtod(const char* s, char** end) { locale_read("strtod", RA0); return strtod(s, end); }
float xs_strtof(const char* s, char** end) { locale_read("strtof", RA0); return strtof(s, end); }
long double xs_strtold(const char* s, char** end) { locale_read("strtold", RA0); return strtold(s, end); }
double xs_atof(const char* s) { locale_read("atof", RA0); return atof(s); }
long xs_strtol(const char* s, char** e, int b) { return strtol(s, e, b); }
unsigned long xs_strtoul(const char* s, char** e, int b) { return strtoul(s, e, b); }
int xs_atoi(const char* s) { return atoi(s); }
int __isoc99_vsscanf(const char*, const char*, va_list);
int __isoc99_vfscanf(FILE*, const char*, va_list);
int xs___isoc99_sscanf(const char* s, const char* fmt, ...) {
  locale_read("sscanf", RA0);
  va_list ap;
  va_start(ap, fmt);
  int r = __isoc99_vsscanf(s, fmt, ap);
  va_end(ap);
  return r;
}
int xs___isoc99_fscanf(FILE* f, const char* fmt, ...) {
  locale_read("fscanf", RA0);
  va_list ap;
  va_start(ap, fmt);
  int r = __isoc99_vfscanf(f, fmt, ap);
  va_end(ap);
  return r;
}
int xs_sscanf(const char* s, const char* fmt, ...) {
  locale_read("sscanf", RA0);
  va_list ap;
  va_start(ap, fmt);
  int r = vsscanf(s, fmt, ap);
  va_end(ap);
  return r;
}
int xs_fscanf(FILE* f, const char* fmt, ...) {
  locale_read("fscanf", RA0);
  va_list ap;
  va_start(ap, fmt);
  int r = vfscanf(f, fmt, ap);
  va_end(ap);
  return r;
}

// ---- bulk memory: report ranged accesses, then forward
void* __asan_memcpy(void*, const void*, size_t);
void* __asan_memmove(void*, const void*, size_t);
void* __asan_memset(void*, int, size_t);
void* xs___asan_memcpy(void* d, const void* s, size_t n) {
  on_mem_access((uintptr_t)s, n, false, RA0);
  on_mem_access((uintptr_t)d, n, true, RA0);
  return __asan_memcpy(d, s, n);
}
void* xs___asan_memmove(void* d, const void* s, size_t n) {
  on_mem_access((uintptr_t)s, n, false, RA0);
  on_mem_access((uintptr_t)d, n, true, RA0);
  return __asan_memmove(d, s, n);
}
void* xs___asan_memset(void* d, int c, size_t n) {
  on_mem_access((uintptr_t)d, n, true, RA0);
  return __asan_memset(d, c, n);
}
void* xs_memcpy(void* d, const void* s, size_t n) { return xs___asan_memcpy(d, s, n); }
void* xs_memmove(void* d, const void* s, size_t n) { return xs___asan_memmove(d, s, n); }
void* xs_memset(void* d, int c, size_t n) { return xs___asan_memset(d, c, n); }
__attribute__((no_sanitize("address"))) static size_t cmp_extent(const char* a, const char* b, size_t lim) {
  size_t i = 0;
  while (i < lim && a[i] == b[i] && a[i]) i++;
  return i < lim ? i + 1 : lim;
}
int xs_strcmp(const char* a, const char* b) {
  size_t n = cmp_extent(a, b, ~(size_t)0 >> 1);
  on_mem_access((uintptr_t)a, n, false, RA0);
  on_mem_access((uintptr_t)b, n, false, RA0);
  return strcmp(a, b);
}
int xs_strncmp(const char* a, const char* b, size_t lim) {
  size_t n = cmp_extent(a, b, lim);
  on_mem_access((uintptr_t)a, n, false, RA0);
  on_mem_access((uintptr_t)b, n, false, RA0);
  return strncmp(a, b, lim);
}
int xs_memcmp(const void* a, const void* b, size_t n) {
  on_mem_access((uintptr_t)a, n, false, RA0);
  on_mem_access((uintptr_t)b, n, false, RA0);
  return memcmp(a, b, n);
}
size_t xs_strlen(const char* s) {
  size_t n = strlen(s);
  on_mem_access((uintptr_t)s, n + 1, false, RA0);
  return n;
}
char* xs_strcpy(char* d, const char* s) {
  size_t n = strlen(s) + 1;
  on_mem_access((uintptr_t)s, n, false, RA0);
  on_mem_access((uintptr_t)d, n, true, RA0);
  return strcpy(d, s);
}
char* xs_strncpy(char* d, const char* s, size_t n) {
  on_mem_access((uintptr_t)s, strnlen(s, n), false, RA0);
  on_mem_access((uintptr_t)d, n, true, RA0);
  return strncpy(d, s, n);
}
char* xs_strcat(char* d, const char* s) {
  size_t dl = strlen(d), n = strlen(s) + 1;
  on_mem_access((uintptr_t)s, n, false, RA0);
  on_mem_access((uintptr_t)d, dl + n, true, RA0);
  return strcat(d, s);
}
// formatted output into a caller buffer: the bytes are written inside libc, report them as a ranged store
int xs_vsnprintf(char* buf, size_t n, const char* fmt, va_list ap) {
  locale_read("vsnprintf", RA0);
  int r = vsnprintf(buf, n, fmt, ap);
  if (buf && n) on_mem_access((uintptr_t)buf, r < 0 ? 1 : ((size_t)r + 1 < n ? (size_t)r + 1 : n), true, RA0);
  return r;
}
int xs_snprintf(char* buf, size_t n, const char* fmt, ...) {
  locale_read("snprintf", RA0);
  va_list ap;
  va_start(ap, fmt);
  int r = vsnprintf(buf, n, fmt, ap);
  va_end(ap);
  if (buf && n) on_mem_access((uintptr_t)buf, r < 0 ? 1 : ((size_t)r + 1 < n ? (size_t)r + 1 : n), true, RA0);
  return r;
}
int xs_vsprintf(char* buf, const char* fmt, va_list ap) {
  locale_read("vsprintf", RA0);
  int r = vsprintf(buf, fmt, ap);
  if (buf) on_mem_access((uintptr_t)buf, r < 0 ? 1 : (size_t)r + 1, true, RA0);
  return r;
}
int xs_sprintf(char* buf, const char* fmt, ...) {
  locale_read("sprintf", RA0);
  va_list ap;
  va_start(ap, fmt);
  int r = vsprintf(buf, fmt, ap);
  va_end(ap);
  if (buf) on_mem_access((uintptr_t)buf, r < 0 ? 1 : (size_t)r + 1, true, RA0);
  return r;
}
char* xs_fgets(char* buf, int n, FILE* f) {
  char* r = fgets(buf, n, f);
  if (r) on_mem_access((uintptr_t)buf, strnlen(buf, (size_t)n) + 1, true, RA0);
  return r;
}
void xs_qsort(void* base, size_t n, size_t sz, int (*cmp)(const void*, const void*)) {
  if (base && n * sz) on_mem_access((uintptr_t)base, n * sz, true, RA0);
  qsort(base, n, sz, cmp);
}
void* xs_lfind(const void* key, const void* base, size_t* n, size_t sz, int (*cmp)(const void*, const void*)) {
  if (base && n && *n * sz) on_mem_access((uintptr_t)base, *n * sz, false, RA0);
  return lfind(key, base, n, sz, cmp);
}
void* xs_bsearch(const void* key, const void* base, size_t n, size_t sz, int (*cmp)(const void*, const void*)) {
  if (base && n * sz) on_mem_access((uintptr_t)base, n * sz, false, RA0);
  return bsearch(key, base, n, sz, cmp);
}

// ---- MT-unsafe libc state a change might start using: virtual shared locations
char* xs_strtok(char* s, const char* d) { virt_access(VL_STRTOK, true, "strtok", RA0); return strtok(s, d); }
int xs_rand(void) { virt_access(VL_RAND, true, "rand", RA0); return rand(); }
void xs_srand(unsigned s) { virt_access(VL_RAND, true, "srand", RA0); srand(s); }
struct lconv* xs_localeconv(void) { virt_access(VL_LOCALECONV, true, "localeconv", RA0); return localeconv(); }
struct tm* xs_gmtime(const time_t* t) { virt_access(VL_TM, true, "gmtime", RA0); return gmtime(t); }
struct tm* xs_localtime(const time_t* t) { virt_access(VL_TM, true, "localtime", RA0); return localtime(t); }
char* xs_ctime(const time_t* t) { virt_access(VL_TM, true, "ctime", RA0); return ctime(t); }
char* xs_asctime(const struct tm* t) { virt_access(VL_TM, true, "asctime", RA0); return asctime(t); }
// ---- clock, identity and entropy are simulated: logical time is the event count (1 event = 1 microsecond after a fixed
// epoch), identities are fixed, "random" bytes come from a generator seeded by the plan.  A library that consults them
// then behaves the same in every replay of a plan, and a result that depends on them differs between a fresh process
// and a history (C16) or between the serial and the concurrent run (C17) instead of tripping the determinism gate.
static uint64_t sim_now_us() { return 1700000000ull * 1000000ull + SH->events; }
time_t xs_time(time_t* t) { SH->seam_calls++; time_t v = (time_t)(sim_now_us() / 1000000ull); if (t) *t = v; return v; }
clock_t xs_clock(void) { SH->seam_calls++; return (clock_t)SH->events; }
int xs_gettimeofday(struct timeval* tv, void*) { SH->seam_calls++; if (tv) { uint64_t u = sim_now_us(); tv->tv_sec = (time_t)(u / 1000000ull); tv->tv_usec = (suseconds_t)(u % 1000000ull); } return 0; }
int xs_clock_gettime(clockid_t, struct timespec* ts) { SH->seam_calls++; if (ts) { uint64_t u = sim_now_us(); ts->tv_sec = (time_t)(u / 1000000ull); ts->tv_nsec = (long)(u % 1000000ull) * 1000; } return 0; }
int xs_timespec_get(struct timespec* ts, int base) { xs_clock_gettime(0, ts); return base; }
pid_t xs_getpid(void) { return 4242; }
pid_t xs_getppid(void) { return 4241; }
pthread_t xs_pthread_self(void) { return (pthread_t)(uintptr_t)(0x7f5100001000ull + 0x10000ull * (uint64_t)(t_task ? t_task->id : 0)); }
static uint64_t sim_rand64() { uint64_t z = (xs::g_sim_entropy += 0x9e3779b97f4a7c15ull); z = (z ^ (z >> 30)) * 0xbf58476d1ce4e5b9ull; z = (z ^ (z >> 27)) * 0x94d049bb133111ebull; return z ^ (z >> 31); }
void xs_arc4random_buf(void* buf, size_t n) { virt_access(VL_RAND, true, "arc4random", RA0); unsigned char* b = (unsigned char*)buf; for (size_t i = 0; i < n; i++) b[i] = (unsigned char)sim_rand64(); }
uint32_t xs_arc4random(void) { virt_access(VL_RAND, true, "arc4random", RA0); return (uint32_t)sim_rand64(); }
uint32_t xs_arc4random_uniform(uint32_t n) { virt_access(VL_RAND, true, "arc4random", RA0); return n ? (uint32_t)(sim_rand64() % n) : 0; }
ssize_t xs_getrandom(void* buf, size_t n, unsigned) { xs_arc4random_buf(buf, n); return (ssize_t)n; }
int xs_getentropy(void* buf, size_t n) { if (n > 256) { errno = EIO; return -1; } xs_arc4random_buf(buf, n); return 0; }

// more libc entry points with process-wide hidden state (glibc manual: MT-Unsafe race:...)
int xs_hcreate(size_t n) { virt_access(VL_HSEARCH, true, "hcreate", RA0); return hcreate(n); }
void xs_hdestroy(void) { virt_access(VL_HSEARCH, true, "hdestroy", RA0); hdestroy(); }
ENTRY* xs_hsearch(ENTRY item, ACTION action) { virt_access(VL_HSEARCH, action == ENTER, "hsearch", RA0); return hsearch(item, action); }
double xs_drand48(void) { virt_access(VL_RAND, true, "drand48", RA0); return drand48(); }
long xs_lrand48(void) { virt_access(VL_RAND, true, "lrand48", RA0); return lrand48(); }
long xs_mrand48(void) { virt_access(VL_RAND, true, "mrand48", RA0); return mrand48(); }
void xs_srand48(long s) { virt_access(VL_RAND, true, "srand48", RA0); srand48(s); }
long xs_random(void) { virt_access(VL_RAND, true, "random", RA0); return random(); }
void xs_srandom(unsigned s) { virt_access(VL_RAND, true, "srandom", RA0); srandom(s); }
double xs_lgamma(double x) { virt_access(VL_SIGNGAM, true, "lgamma", RA0); return lgamma(x); }
float xs_lgammaf(float x) { virt_access(VL_SIGNGAM, true, "lgammaf", RA0); return lgammaf(x); }
double xs_gamma(double x) { virt_access(VL_SIGNGAM, true, "gamma", RA0); return lgamma(x); }
char* xs_ecvt(double v, int n, int* d, int* sg) { virt_access(VL_CVTBUF, true, "ecvt", RA0); return ecvt(v, n, d, sg); }
char* xs_fcvt(double v, int n, int* d, int* sg) { virt_access(VL_CVTBUF, true, "fcvt", RA0); return fcvt(v, n, d, sg); }
char* xs_getenv(const char* n) { virt_access(VL_ENV, false, "getenv", RA0); return getenv(n); }
int xs_setenv(const char* n, const char* v, int o) { virt_access(VL_ENV, true, "setenv", RA0); return setenv(n, v, o); }
int xs_putenv(char* s) { virt_access(VL_ENV, true, "putenv", RA0); return putenv(s); }
// process-wide (cwd) or per-thread (rounding mode) state: the call is carried out; whether a trace is LEFT is judged by
// the monitors after the op (a library that switches and restores is fine), concurrency through the virtual location
int xs_chdir(const char* p) {
  virt_access(VL_CWD, true, "chdir", RA0);
  logf("CHDIR %s", p ? p : "(null)");
  return chdir(p);
}
int xs_fesetround(int m) {
  logf("FESETROUND %d", m);
  return fesetround(m);
}

// ---- instrumentation callbacks (library code only)
#define XS_LD(n) \
  void __sanitizer_cov_load##n(void* p) { on_mem_access((uintptr_t)p, n, false, RA0); }
#define XS_ST(n) \
  void __sanitizer_cov_store##n(void* p) { on_mem_access((uintptr_t)p, n, true, RA0); }
XS_LD(1) XS_LD(2) XS_LD(4) XS_LD(8) XS_LD(16) XS_ST(1) XS_ST(2) XS_ST(4) XS_ST(8) XS_ST(16)

void __sanitizer_cov_trace_pc_guard_init(uint32_t* start, uint32_t* stop) {
  static uint32_t n = 0;
  if (start == stop || *start) return;
  for (uint32_t* x = start; x < stop; x++) *x = ++n;
  g_cov_n = n + 1;
}
static const uintptr_t* g_pcs_beg = nullptr;
static const uintptr_t* g_pcs_end = nullptr;
void __sanitizer_cov_pcs_init(const uintptr_t* beg, const uintptr_t* end) { if (!g_pcs_beg) { g_pcs_beg = beg; g_pcs_end = end; } }
void __sanitizer_cov_trace_pc_guard(uint32_t* guard) {
  uint32_t g = *guard;
  if (g_cov && g < g_cov_n && !g_cov[g]) { g_cov[g] = 1; if (SH) SH->edges_new++; }
  on_edge(RA0);
}

}  // extern "C"

// per-function edge coverage from the pc table (guard i+1 belongs to pcs[2*i])
namespace xs {
void coverage_by_function(std::map<std::string, std::pair<int, int>>& out) {
  out.clear();
  if (!g_pcs_beg || !g_cov) return;
  size_t n = (size_t)(g_pcs_end - g_pcs_beg) / 2;
  for (size_t i = 0; i < n && i + 1 < g_cov_n; i++) {
    const Sym* s = sym_lookup(g_pcs_beg[2 * i]);
    if (!s) continue;
    auto& e = out[s->name];
    e.second++;
    if (g_cov[i + 1]) e.first++;
  }
}
}  // namespace xs

// other names under which libc exports the same entry points (build.py SEAM_ALIASES): alias symbols, no wrapper frame
#define XS_ALIAS(name, base) extern "C" __typeof__(xs_##base) xs_##name __attribute__((alias("xs_" #base)));
XS_ALIAS(fopen64, fopen)
XS_ALIAS(freopen64, freopen)
XS_ALIAS(__isoc23_sscanf, sscanf)
XS_ALIAS(__isoc23_fscanf, fscanf)
XS_ALIAS(__isoc23_strtol, strtol)
XS_ALIAS(__isoc23_strtoul, strtoul)
XS_ALIAS(__getdelim, getdelim)

// ==================================================================== locale configurations
namespace xs {
const char* locale_name(int cfg) { return cfg == LOC_C ? "C" : cfg == LOC_CUTF8 ? "C.utf8" : "LC_NUMERIC=xx_XX"; }
bool apply_locale(int cfg) {
  g_locale_cfg = cfg;
  bool ok = true;
  if (cfg == LOC_C) ok = setlocale(LC_ALL, "C") != nullptr;
  else if (cfg == LOC_CUTF8) ok = setlocale(LC_ALL, "C.utf8") != nullptr || setlocale(LC_ALL, "C.UTF-8") != nullptr;
  else { setlocale(LC_ALL, "C"); ok = setlocale(LC_NUMERIC, "xx_XX") != nullptr; }
  const char* a = setlocale(LC_ALL, nullptr);
  g_locale_all = a ? a : "";
  return ok;
}

// ---- the caller's own per-thread locale (plan field tloc)
extern "C" int __asan_address_is_poisoned(void const volatile* addr);
static void locale_signature(locale_t l, char* out, size_t n) {
  // category names and the radix character; glibc keeps the names in the object itself
  uint64_t h = 1469598103934665603ull;
  for (int c = 0; c < 13; c++) {
    if (c == LC_ALL) continue;
    const char* nm = ((struct __locale_struct*)l)->__names[c];
    for (const char* q = nm ? nm : "?"; *q; q++) h = (h ^ (unsigned char)*q) * 1099511628211ull;
    h = (h ^ 0xff) * 1099511628211ull;
  }
  const char* rad = nl_langinfo_l(RADIXCHAR, l);
  snprintf(out, n, "%016llx radix='%s'", (unsigned long long)h, rad ? rad : "?");
}
void caller_locale_install(int kind) {
  TaskCtx* t = t_task;
  t->caller_loc = nullptr;
  t->caller_loc_kind = kind;
  if (kind == TLOC_NONE) return;
  locale_t l = duplocale(LC_GLOBAL_LOCALE);
  if (l && kind == TLOC_XX) { locale_t m = newlocale(LC_NUMERIC_MASK, "xx_XX", l); if (!m) { freelocale(l); l = (locale_t)0; } else l = m; }
  if (l && kind == TLOC_C) { locale_t m = newlocale(LC_NUMERIC_MASK, "C", l); if (!m) { freelocale(l); l = (locale_t)0; } else l = m; }
  if (!l) { fprintf(stderr, "xrlsim: cannot build the caller's thread locale (kind %d)\n", kind); child_exit(3); }
  uselocale(l);
  t->caller_loc = (void*)l;
  locale_signature(l, t->caller_loc_sig, sizeof t->caller_loc_sig);
  logf("TLOC t%d kind=%d %s", t->id, kind, t->caller_loc_sig);
}
void caller_locale_check(bool identity, const char* fn) {
  TaskCtx* t = t_task;
  if (!t->caller_loc) return;
  locale_t l = (locale_t)t->caller_loc;
  bool broken = false;
  if (__asan_address_is_poisoned(l)) {
    violation("locale-ownership", fn, "the locale object the calling thread had installed with uselocale() has been released by the call");
    broken = true;
  } else {
    char now[96];
    locale_signature(l, now, sizeof now);
    if (strcmp(now, t->caller_loc_sig)) {
      violation("locale-ownership", fn, "the locale object the calling thread had installed was modified by the call: %s, was %s", now, t->caller_loc_sig);
      broken = true;
    }
  }
  if (!broken && uselocale((locale_t)0) != l) {
    if (identity)
      violation("global-state", fn, "the calling thread had its own locale installed (uselocale) and is left with %s after the call",
                uselocale((locale_t)0) == LC_GLOBAL_LOCALE ? "the process locale" : "another locale object");
    uselocale(l);   // blame the call once
  }
  if (broken) {
    // give the rest of the run a valid thread locale again (the old object is not touched any more)
    int kind = t->caller_loc_kind;
    uselocale(LC_GLOBAL_LOCALE);
    caller_locale_install(kind);
  }
}
void caller_locale_remove() {
  TaskCtx* t = t_task;
  if (!t->caller_loc) return;
  locale_t l = (locale_t)t->caller_loc;
  uselocale(LC_GLOBAL_LOCALE);
  if (!__asan_address_is_poisoned(l)) freelocale(l);
  t->caller_loc = nullptr;
}
}  // namespace xs
